"""C12 - delimited data round-trips through write and read for every accepted format.

A case is a JSON dict

    {"config": {"delimiter": ",", "spelling": "0x2c", "quote": "\"", "escape": "\\", "quoting": "minimal",
                "line": "LF"},
     "table": [["a", "b"], ["", "x,y"]]}

The configuration is turned into D rows (the item delimiter spelled as ``spelling``), completed by as many Text fields
(allowed to be empty) as the table has columns and loaded with ``Cid.read``.  A configuration the loader refuses is
outside the property's domain (counted, not judged - C11 judges refusals).  For an accepted configuration the table is
written and read back twice: ``rowio.DelimitedRowWriter`` / ``rowio.delimited_rows`` and ``cutplace.Writer`` /
``cutplace.rows``, both over ``io.StringIO(newline="")``, and - for tables containing line breaks or non-ASCII characters -
a third time through a file path opened by the writer and the reader themselves; what is read must equal what was written.
"""
import io
import os
import shutil
import tempfile
import itertools

from hypothesis import strategies as st

import cutplace
from cutplace import errors, interface, rowio
from vlib.runner import h64, reused_dir

PROPERTY_ID = "C12"
RULE = (
    "Enumeration of 16 item delimiters (the 14 of the quantifier: , ; : | tab blank a 0 \" ' \\ ~ # EUR, plus CR and LF) "
    "x all 20 quote characters x escape characters {\", \\} x quoting {minimal, all} x line delimiters {LF, CR, CRLF, "
    "Any} = 5120 configurations, skip initial space off, the delimiter spelled in one of C11's spellings; every "
    "configuration Cid.read accepts gets (a) systematic tables whose cells are the empty string, every atom and every "
    "ordered pair of atoms of its alphabet (configured delimiter, quote and escape character, blank, CR, LF, 'x', "
    "'\\u00e9') and every special atom between letters, packed 5 rows x 4..1 columns, plus edge shapes (no rows, rows "
    "of empty cells) and tables whose first row starts with a cell that means something to other consumers of "
    "delimited files ('sep=' as Excel's separator hint, 'ID', a byte order mark, comment / formula / null spellings), "
    "(b) seed-derived random tables of 0-5 rows x 1-4 columns with cells of 0-4 atoms, and (c) "
    "Hypothesis tables over the same alphabet with the configuration drawn at random (shrunk on failure). Oracle: "
    "read(write(table)) == table through rowio and through cutplace.Writer/cutplace.rows under an all-Text CID. "
    "A case is non-trivial when some cell contains the configured delimiter, quote or escape character or a line "
    "break; distinct by hash of (configuration, table)."
    "Readings overlap: the plain round trip is read while another reading of the same text begun earlier ends after its first row; 12-30 overlap scenarios (short reading / long-cell reading, three orders) run each in a freshly forked process. Writers also get iterators and generators."
    "Magic cells include the DOS end-of-file mark and byte order mark look-alikes, also as the last row."
    "The path round trip uses names of compressed files and archives too; tables of 2 rows x 255 ... 100000 cells go through the plain writer and reader."
)
ASSUMPTIONS = [
    "tables are rectangular with 1-4 columns: a row without cells is written as an empty line, which is not a table "
    "row under any CID (csv happens to read it back as []), so 0-column tables are kept out of the generator",
    "a row consisting of one empty cell stays in the generator: with a quote character configured (always the case "
    "here) csv writes it as a pair of quote characters in both quoting modes and reads it back as ['']",
    "streams are io.StringIO(newline='') for writing and reading, as rowio itself opens files with newline=''",
    "the line delimiter actually written is csv's; the declared one only takes part in which formats are accepted",
    "csv (reader with strict=True, writer) is trusted for every dialect whose delimiter, quote and escape character "
    "are pairwise different or where only escape == quote, and whose delimiter is not CR or LF",
    "fields of the CID are Text, allowed to be empty, without length or rule, so field validation accepts every cell",
]
EXHAUSTIVE = True
EXHAUSTIVE_SCOPE = (
    "all 5120 combinations of 16 item delimiters x 20 quote characters x 2 escape characters x 2 quoting modes x 4 "
    "line delimiters are loaded; every accepted one is exercised with the systematic tables (every atom and ordered "
    "pair of atoms of its alphabet as a cell)"
)

DELIMITERS = [",", ";", ":", "|", "\t", " ", "a", "0", '"', "'", "\\", "~", "#", "€", "\r", "\n"]
QUOTES = list("!\"#$%&'*+-/:;=?\\^_`~")
ESCAPES = ['"', "\\"]
# the two documented modes, and the other modes of the csv module: the loader refuses them today; should it ever accept
# one, every table has to round-trip under it like under the documented ones
QUOTINGS = ["minimal", "all", "none", "nonnumeric"]
LINES = ["LF", "CR", "CRLF", "Any"]
SYMBOLIC = {"\r": "Cr", "\n": "LF", "\t": "Tab"}


def spell_delimiter(delimiter, number):
    """One of C11's documented spellings of the delimiter, chosen by ``number``."""
    code = ord(delimiter)
    options = ["%d" % code, "0x%x" % code, "0X%02X" % code, '"\\u%04x"' % code, "'\\u%04X'" % code]
    if delimiter.strip() and not delimiter.isdigit():
        options.append(delimiter)
    if delimiter not in "\"\\\r\n\t":
        options.append('"%s"' % delimiter)
    if delimiter != "'" and delimiter not in "\\\r\n\t":
        options.append("'%s'" % delimiter)
    if code <= 0xFF:
        options.append('"\\x%02x"' % code)
    if delimiter in SYMBOLIC:
        options.append(SYMBOLIC[delimiter])
    return options[number % len(options)]


def all_configs():
    for number, (delimiter, quote, escape, quoting, line) in enumerate(
            itertools.product(DELIMITERS, QUOTES, ESCAPES, QUOTINGS, LINES)):
        yield {"delimiter": delimiter, "spelling": spell_delimiter(delimiter, number), "quote": quote,
               "escape": escape, "quoting": quoting, "line": line}


# characters other tools take for line breaks (str.splitlines), a byte order mark and a tab: ordinary cell content
# for a delimited file, but exactly what a reader or writer that pre-processes lines or encodings stumbles over
EXTRA_ATOMS = ["\x0b", "\x0c", "\x1c", "\x1e", "\x85", "\u2028", "\u2029", "\ufeff", "\t"]


def atoms_of(config):
    atoms = []
    for atom in (config["delimiter"], config["quote"], config["escape"], " ", "\r", "\n", "x", "\xe9"):
        if atom not in atoms:
            atoms.append(atom)
    return atoms


def cid_rows(config, columns):
    rows = [
        ["D", "Format", "Delimited"],
        ["D", "Item delimiter", config["spelling"]],
        ["D", "Quote character", config["quote"]],
        ["D", "Escape character", config["escape"]],
        ["D", "Quoting", config["quoting"]],
        ["D", "Line delimiter", config["line"]],
        ["D", "Encoding", config.get("encoding", "UTF-8")],
    ]
    if config.get("header"):
        rows.append(["D", "Header", str(config["header"])])
    for index in range(columns):
        rows.append(["F", "c%d" % (index + 1), "", "X", "", "Text"])
    return rows


def load(config, columns):
    cid = interface.Cid()
    cid.read("c12.csv", cid_rows(config, columns))
    return cid


# -- the two round trips ----------------------------------------------------------------------
def read_in_company(text, data_format):
    """Read ``text`` while another reading of it, begun earlier, ends after the first row of this one: readings
    that overlap in time are none of each other's business."""
    company = rowio.delimited_rows(io.StringIO(text, newline=""), data_format)
    next(company, None)
    result = []
    for row in rowio.delimited_rows(io.StringIO(text, newline=""), data_format):
        result.append(row)
        if company is not None:
            for _ in company:
                pass
            company = None
    return result


def roundtrip_rowio(cid, table):
    target = io.StringIO(newline="")
    writer = rowio.DelimitedRowWriter(target, cid.data_format)
    writer.write_rows(table)
    text = target.getvalue()
    return text, read_in_company(text, cid.data_format)


def roundtrip_validio(cid, table):
    target = io.StringIO(newline="")
    writer = cutplace.Writer(cid, target)
    try:
        writer.write_rows(iter(table))
    finally:
        writer.close()
    text = target.getvalue()
    # with a header the reader hands back the rows behind it; the header rows are part of what was written
    header = cid.data_format.header
    return text, [list(row) for row in table[:header]] + list(cutplace.rows(cid, io.StringIO(text, newline="")))


def roundtrip_path(cid, table):
    """Through files: the writer and the reader open the path themselves (encoding and newline handling are theirs)."""
    folder = reused_dir("c12")
    try:
        # what the file is called says nothing about what is in it (names of compressed files and archives included)
        path = os.path.join(folder, PATH_NAMES[(len(table) + sum(len(row) for row in table[:1])) % len(PATH_NAMES)])
        writer = rowio.DelimitedRowWriter(path, cid.data_format)
        try:
            writer.write_rows(row for row in table)  # rows may come from any iterable, here one without a length
        finally:
            writer.close()
        with open(path, "rb") as written:
            text = written.read().decode(cid.data_format.encoding, "replace")
        return text, list(rowio.delimited_rows(path, cid.data_format))
    finally:
        shutil.rmtree(folder, ignore_errors=True)


PATH_NAMES = ("table.csv", "table.csv", "table.csv.gz", "table.GZ", "table.bz2", "table.zip", "table.xz", "table.txt",
              "table", "table.xlsx", "table.ods")
ROUNDTRIPS = (("rowio", roundtrip_rowio), ("validio", roundtrip_validio))


def root_cause(config):
    """Configurations that cannot work at all, by the relation that breaks them; None for sane ones."""
    if config["delimiter"] == config["escape"]:
        return "delimiter==escape"
    if config["delimiter"] in "\r\n":
        return "delimiter-is-line-break"
    return None


def _brief(value):
    """A table or text for a message: long cells and texts are cut (the replay file holds the whole case)."""
    if isinstance(value, str):
        return value if len(value) <= 200 else "%s... (%d characters)" % (value[:60], len(value))
    if isinstance(value, list):
        return [_brief(item) for item in value]
    return value


def attempt(cid, config, table, via, function):
    """None if the table round-trips, else (signature, message).

    One signature per root cause: the relation that makes a configuration unworkable, or else csv's escaping mode,
    the quoting mode and the kind of failure (exception type or 'differs'); check_case adds 'validio-only' when the
    validating writer/reader loses what the plain row writer/reader keeps."""
    cause = root_cause(config)
    try:
        text, back = function(cid, table)
    except Exception as error:
        if cause:
            signature = "C12|roundtrip|" + cause
        else:
            signature = "C12|roundtrip|%s|%s|%s" % (_mode(config), config["quoting"], type(error).__name__)
        return signature, "%s: writing and reading %r under %r raised %s: %s" % (
            via, _brief(table), _show(config), type(error).__name__, str(error)[:300])
    if back == table:
        return None
    if cause:
        signature = "C12|roundtrip|" + cause
    else:
        signature = "C12|roundtrip|%s|%s|differs" % (_mode(config), config["quoting"])
    return signature, "%s: under %r the table %r was written as %r and read back as %r" % (
        via, _show(config), _brief(table), _brief(text), _brief(back))


def _mode(config):
    return "doublequote" if config["escape"] == config["quote"] else "escapechar"


def _show(config):
    return "delimiter %r (spelled %s), quote %r, escape %r, quoting %s, line delimiter %s" % (
        config["delimiter"], config["spelling"], config["quote"], config["escape"], config["quoting"], config["line"])


def _shrink(cid_for, config, table, via, function, signature):
    """Greedy minimisation of a failing table (keeps >= 1 row and >= 1 column and the signature)."""

    def still_fails(candidate):
        if not candidate or not candidate[0]:
            return False
        found = attempt(cid_for(len(candidate[0])), config, candidate, via, function)
        return found is not None and found[0] == signature

    changed = bool(table)
    while changed:
        changed = False
        for index in range(len(table)):
            candidate = table[:index] + table[index + 1:]
            if still_fails(candidate):
                table, changed = candidate, True
                break
        if changed:
            continue
        for index in range(len(table[0])):
            candidate = [row[:index] + row[index + 1:] for row in table]
            if still_fails(candidate):
                table, changed = candidate, True
                break
        if changed:
            continue
        for r, row in enumerate(table):
            for c, cell in enumerate(row):
                options = [cell[:i] + cell[i + 1:] for i in range(len(cell))]
                options += [cell[:i] + "x" + cell[i + 1:] for i in range(len(cell)) if cell[i] != "x"]
                for option in options:
                    candidate = [list(other) for other in table]
                    candidate[r][c] = option
                    if still_fails(candidate):
                        table, changed = candidate, True
                        break
                if changed:
                    break
            if changed:
                break
    return table


def check_case(sub, case, shrink=False):
    config = case["config"]
    table = case["table"]
    columns = len(table[0]) if table else case.get("columns", 1)
    if any(len(row) != columns for row in table) or columns < 1:
        raise ValueError("not a rectangular table with >= 1 column: %r" % (table,))
    cids = {}

    def cid_for(count):
        if count not in cids:
            cids[count] = load(config, count)
        return cids[count]

    try:
        cid = cid_for(columns)
    except errors.InterfaceError:
        sub.case(None, False, ["config:refused"])
        return
    except Exception as error:
        sub.case(None, False, ["config:crashed"])
        sub.fail("C12|load|%s" % type(error).__name__, case,
                 "loading %r raised %s: %s" % (_show(config), type(error).__name__, error))
        return
    data_format = cid.data_format
    if (data_format.item_delimiter, data_format.quote_character, data_format.escape_character) != (
            config["delimiter"], config["quote"], config["escape"]):
        sub.fail("C12|load|wrong-characters", case, "%r loaded as delimiter %r, quote %r, escape %r" % (
            _show(config), data_format.item_delimiter, data_format.quote_character, data_format.escape_character))
        return
    specials = set((config["delimiter"], config["quote"], config["escape"], "\r", "\n"))
    present = set(ch for row in table for cell in row for ch in cell)
    classes = ["config:accepted", "mode:%s,%s" % (_mode(config), config["quoting"]), "rows:%d" % len(table),
               "columns:%d" % columns]
    for name, atom in (("delimiter", config["delimiter"]), ("quote", config["quote"]), ("escape", config["escape"]),
                       ("cr", "\r"), ("lf", "\n"), ("blank", " ")):
        if atom in present:
            classes.append("cell-has:" + name)
    if any(cell == "" for row in table for cell in row):
        classes.append("cell-has:empty")
    if root_cause(config):
        classes.append("config:" + root_cause(config))
    nontrivial = bool(specials & present)
    sub.case((sorted(config.items()), table), nontrivial, classes,
             sample={"config": config, "table": table} if nontrivial and len(table) <= 3 and all(
                 len(cell) < 200 for row in table for cell in row) else None, evals=0)
    rowio_failed = False
    trips = ROUNDTRIPS
    if "\r" in present or "\n" in present or any(ord(ch) > 127 for ch in present) or "encoding" in config:
        # line breaks and non-ASCII are what opening a file can spoil: also go through a path
        trips = ROUNDTRIPS + (("path", roundtrip_path),)
        sub.cls("via-path")
    for via, function in trips:
        sub.evaluations += 1
        found = attempt(cid, config, table, via, function)
        if found is None:
            continue
        signature, message = found
        if via == "rowio":
            rowio_failed = True
        failing = table
        if shrink and signature not in sub.fails:
            failing = _shrink(cid_for, config, table, via, function, signature)
            if failing != table:
                message = attempt(cid_for(len(failing[0])), config, failing, via, function)[1]
        if via == "validio" and not rowio_failed and not root_cause(config):
            signature += "|validio-only"
        sub.fail(signature, {"config": config, "table": failing}, message)


# -- (a) systematic and (b) seed-derived tables per configuration --------------------------------
# first cells that mean something to some consumer of delimited files (Excel's separator hint, the SYLK magic, a byte
# order mark, comment and formula prefixes, null spellings, numbers that lose their form when interpreted): for the
# round trip they are text like any other
MAGIC_CELLS = ["sep=", "sep=;", "sep=,", "ID", "\ufeffid", "#", "# comment", "//", "%", "<?xml", "PK", "=1+1", "@a", "+1",
               "-1", "NULL", "null", "None", "\\N", "NA", "N/A", "1e5", "0x10", "true", "00123", "1,5", "''", '""',
               # the DOS end-of-file mark, and what a UTF-8 byte order mark looks like in an 8-bit code page
               "\x1a", "\x1a\x1a", "\xef\xbb\xbfid", "\xef\xbb\xbf", "\xff\xfe", "\x04"]


LONG_CELL_SIZES = (8191, 65535, 131070, 131071, 131072, 262143, 400000)  # plus one closing character


def magic_tables(config, number):
    """Tables whose first row starts with one of MAGIC_CELLS: 'sep=' always, six others in rotation."""
    picked = ["sep="] + [MAGIC_CELLS[(number * 6 + k) % len(MAGIC_CELLS)] for k in range(6)]
    tables = []
    for position, magic in enumerate(picked):
        columns = 1 + (number + position) % 4 if magic != "sep=" else 2
        tables.append([[magic] + [""] * (columns - 1), ["x"] * columns])
        if position % 2:
            tables.append([[magic] * columns, [magic] + ["y"] * (columns - 1)])
        else:
            # ... and as the last thing in the file
            tables.append([["x"] * columns, [magic] + [""] * (columns - 1)])
    tables.append([["sep=" + config["delimiter"]] + [""], ["x", "y"]])
    return tables


def systematic_tables(config):
    atoms = atoms_of(config)
    specials = [a for a in atoms if a not in ("x", "\xe9")]
    cells = [""] + atoms + [a + b for a in atoms for b in atoms] + ["x" + a + "\xe9" for a in specials]
    cells += [a + a + a for a in specials[:3]]
    cells += [e for e in EXTRA_ATOMS if e not in atoms] + ["x" + e + "\xe9" for e in EXTRA_ATOMS if e not in atoms]
    cells += ["\ufeffx", "\n\n", "\r\r", "\r\n\r\n", "a\n\nb"]
    tables = [[], [[""]], [["", ""]], [[""], [""]], [[""] * 4] * 5, [["x"], [""], ["x"]], [["", "x", ""]]]
    position = 0
    number = 0
    while position < len(cells):
        columns = 4 - number % 4
        table = []
        for _ in range(5):
            row = cells[position:position + columns]
            position += columns
            if not row:
                break
            table.append(row + [""] * (columns - len(row)))
        tables.append(table)
        number += 1
    return tables


class Derived(object):
    """Deterministic choices derived from (seed, configuration number, table number)."""

    def __init__(self, *key):
        self.key = list(key)
        self.count = 0

    def below(self, limit):
        self.count += 1
        return h64(self.key + [self.count]) % limit


def derived_table(config, seed, config_number, table_number):
    choose = Derived("c12", seed, config_number, table_number)
    atoms = atoms_of(config)
    rows = choose.below(6)
    columns = choose.below(4) + 1
    table = []
    for _ in range(rows):
        row = []
        for _ in range(columns):
            length = (0, 1, 1, 2, 2, 3, 4)[choose.below(7)]
            row.append("".join(atoms[choose.below(len(atoms))] for _ in range(length)))
        table.append(row)
    return table, columns


def _enumeration_shard(args):
    from vlib.runner import Sub

    index, count, seed, derived_per_config = args
    sub = Sub("enumeration")
    for number, config in enumerate(all_configs()):
        if number % count != index:
            continue
        try:
            load(config, 1)
        except errors.InterfaceError:
            sub.cls("enumerated-config:refused")
            sub.evaluations += 1
            continue
        except Exception:
            pass  # reported by check_case below
        sub.cls("enumerated-config:accepted")
        local = Sub("enumeration")
        local.fails = sub.fails  # so that only the first failure of a signature is minimised
        for table in systematic_tables(config) + magic_tables(config, number):
            check_case(local, {"config": config, "table": table, "columns": 1}, shrink=True)
        # the magic cells once more under a declared 8-bit code page (it matters where cutplace opens the file itself)
        code_page = ("cp1252", "latin-1", "cp850", "cp437")[number % 4]
        for table in magic_tables(config, number):
            try:
                ("".join(cell for row in table for cell in row) + config["delimiter"] + config["quote"]
                 + config["escape"]).encode(code_page)
            except UnicodeError:
                continue
            check_case(local, {"config": dict(config, encoding=code_page), "table": table, "columns": 1}, shrink=True)
        # the same tables behind a declared header of 1 or 2 rows (every 4th configuration): what a header row holds
        # - line breaks, quotes, delimiters - must not shift the rows behind it
        if number % 320 == 0:
            # cells longer than the buffers and limits of the layers below (csv's default field size limit is 131072)
            for size in LONG_CELL_SIZES:
                atom = atoms_of(config)[(number // 320 + size) % len(atoms_of(config))]
                rows = [["k", (atom * size)[:size] + "."], ["x", "y"]]
                check_case(local, {"config": config, "table": rows if size % 2 == 0 else rows[::-1], "columns": 2})
        if number % 4 == 0:
            with_header = dict(config, header=1 + number // 4 % 2)
            for table in systematic_tables(config)[7:]:
                check_case(local, {"config": with_header, "table": table, "columns": 1}, shrink=True)
        for table_number in range(derived_per_config):
            table, columns = derived_table(config, seed, number, table_number)
            check_case(local, {"config": config, "table": table, "columns": columns}, shrink=True)
        local.fails = {}
        local.samples = local.samples[:1] if number % 499 == 0 else []
        sub.merge(local)
    return sub


# -- (b2) overlapping readings, each scenario in a process that has read nothing before ------------
def _overlap_task(args):
    """Two readings that overlap in time, the first thing this (freshly forked) process does with cutplace: a short
    one begins, the one with a long cell in a later row begins, the short one ends, the long one goes on."""
    from vlib.runner import Sub

    number, size, order = args
    sub = Sub("overlap")
    config = None
    for config_number, candidate in enumerate(all_configs()):
        if config_number >= number:
            try:
                load(candidate, 2)
                config = candidate
                break
            except Exception:
                continue
    if config is None:
        return sub
    atom = atoms_of(config)[size % len(atoms_of(config))]
    long_table = [["x", "y"], ["k", (atom * size)[:size] + "."], ["z", ""]]
    check_overlap(sub, {"config": config, "table": long_table, "columns": 2, "overlap": order})
    return sub


def _wide_row_task(width):
    """One row of very many cells (more than a spreadsheet has columns) through the plain writer and reader."""
    from vlib.runner import Sub

    sub = Sub("wide-row")
    config = next(c for c in all_configs())
    cid = load(config, 1)
    table = [["c%d" % index for index in range(width)], ["x"] * width]
    sub.evaluations += 1
    sub.case(("wide-row", width), True, ["wide-row:%d" % width])
    try:
        target = io.StringIO(newline="")
        writer = rowio.DelimitedRowWriter(target, cid.data_format)
        writer.write_rows(table)
        back = list(rowio.delimited_rows(io.StringIO(target.getvalue(), newline=""), cid.data_format))
    except Exception as error:
        sub.fail("C12|wide-row|%s" % type(error).__name__, {"config": config, "table": [["wide row of %d cells" % width]]},
                 "a table of 2 rows x %d cells raised %s: %s" % (width, type(error).__name__, str(error)[:200]))
        return sub
    if back != table:
        sub.fail("C12|wide-row|differs", {"config": config, "table": [["wide row of %d cells" % width]]},
                 "a table of 2 rows x %d cells came back with rows of %r cells" % (width, [len(row) for row in back]))
    return sub


def check_overlap(sub, case):
    config, long_table, order = case["config"], case["table"], case["overlap"]
    size = max(len(cell) for row in long_table for cell in row)
    cid = load(config, 2)
    short_table = [["a", "b"], ["c", "d"]]
    texts = []
    for table in (long_table, short_table):
        target = io.StringIO(newline="")
        writer = rowio.DelimitedRowWriter(target, cid.data_format)
        writer.write_rows(table)
        texts.append(target.getvalue())
    sub.evaluations += 1
    sub.case((sorted(config.items()), size, order), True, ["overlap:" + order, "overlap:size:%d" % size])
    try:
        long_reading = rowio.delimited_rows(io.StringIO(texts[0], newline=""), cid.data_format)
        short_reading = rowio.delimited_rows(io.StringIO(texts[1], newline=""), cid.data_format)
        back = []
        if order == "short-first":
            next(short_reading)
            back.append(next(long_reading))
            list(short_reading)
        elif order == "long-first":
            back.append(next(long_reading))
            next(short_reading)
            list(short_reading)
        else:  # the short one is abandoned, never finished
            next(short_reading)
            back.append(next(long_reading))
            short_reading.close()
        back.extend(long_reading)
    except Exception as error:
        sub.fail("C12|overlap|%s|%s" % (order, type(error).__name__), case,
                 "a reading of %r overlapping with a short one (%s) raised %s: %s" % (
                     _brief(long_table), order, type(error).__name__, str(error)[:300]))
        return
    if back != long_table:
        sub.fail("C12|overlap|%s|differs" % order, case, "a reading of %r overlapping with a short one (%s) returned %r" % (
            _brief(long_table), order, _brief(back)))


# -- (c) Hypothesis ------------------------------------------------------------------------------
@st.composite
def table_cases(draw):
    delimiter = draw(st.sampled_from(DELIMITERS))
    escape = draw(st.sampled_from(ESCAPES))
    # escape == quote (csv's doublequote mode, the default format) is only 2 of the 40 quote/escape pairs of the
    # enumeration: give it every third generated case
    quote = escape if draw(st.integers(0, 2)) == 0 else draw(st.sampled_from(QUOTES))
    config = {
        "delimiter": delimiter,
        "spelling": spell_delimiter(delimiter, draw(st.integers(0, 9))),
        "quote": quote,
        "escape": escape,
        "quoting": draw(st.sampled_from(QUOTINGS)),
        "line": draw(st.sampled_from(LINES)),
    }
    atoms = atoms_of(config)
    atoms = atoms + atoms + [e for e in EXTRA_ATOMS if e not in atoms]
    columns = draw(st.integers(1, 4))
    cell = st.lists(st.sampled_from(atoms), min_size=0, max_size=5).map("".join)
    table = draw(st.lists(st.lists(cell, min_size=columns, max_size=columns), min_size=0, max_size=5))
    if table and draw(st.integers(0, 5)) == 0:
        table[0][0] = draw(st.sampled_from(MAGIC_CELLS))
        if draw(st.booleans()):
            table[0][1:] = [""] * (columns - 1)
    if table and draw(st.integers(0, 39)) == 0:
        y = draw(st.integers(0, len(table) - 1))
        x = draw(st.integers(0, columns - 1))
        size = draw(st.sampled_from(LONG_CELL_SIZES))
        table[y][x] = (draw(st.sampled_from(atoms)) * size)[:size] + "."
    # header rows are rows like any other for the writer and for the csv layer (they may hold line breaks and quotes)
    if draw(st.integers(0, 3)) == 0:
        config["header"] = draw(st.integers(1, 2))
    # the declared encoding matters where cutplace opens the file itself (the round trip through a path)
    encoding = draw(st.sampled_from(["UTF-8", "UTF-8", "UTF-8", "utf-16", "utf-8-sig", "utf-32", "utf-16-le", "cp1252",
                                     "latin-1", "cp850"]))
    try:
        "".join(cell for row in table for cell in row).encode(encoding)
        (config["delimiter"] + config["quote"] + config["escape"]).encode(encoding)
        config["encoding"] = encoding
    except UnicodeError:
        pass
    return {"config": config, "table": table, "columns": columns}


def run(ctx):
    ctx.par(_overlap_task, [(number, size, order) for number in ((0, 960) if ctx.quick else (0, 320, 960, 2240, 4480))
                            for size in (131072, 262143) for order in ("short-first", "long-first", "short-abandoned")])
    ctx.par(_wide_row_task, [255, 256, 257, 1024, 1025, 16384, 16385, 65536, 100000])
    shards = ctx.workers * 2
    derived = ctx.n(3, 100)
    ctx.par(_enumeration_shard, [(i, shards, ctx.seed, derived) for i in range(shards)])
    ctx.hyp("tables", table_cases, check_case, ctx.n(8000, 400000))


def replay(sub, case):
    if "overlap" in case:
        check_overlap(sub, case)
    else:
        check_case(sub, case)
