"""C06 - error-handling modes agree with each other and account for every row."""
import os
import shutil
import tempfile

from hypothesis import strategies as st

from props import c04
from vlib import gen_tables, model_validio
from vlib.runner import norm_message, reused_dir

from cutplace import errors, validio

PROPERTY_ID = "C06"
RULE = (
    "Hypothesis: the CID specs and tables of C04 (all formats, checks incl. DistinctCount) read three times - "
    "'yield', 'continue', 'raise' - each on a freshly loaded CID, through cutplace.rows and through "
    "Reader.rows()+close() for the counters. Relations: continue == the rows of yield; raise == the prefix of yield "
    "before its first error followed by an exception of the same class, text and location; both end like yield; "
    "accepted + rejected == number of data rows. Fault injection at every row boundary k: delimited file with an "
    "undecodable byte / an unterminated quote starting in row k, fixed stream and file with a short last record / "
    "an undecodable byte in row k / an input cut inside a CRLF delimiter / a line delimiter the setting forbids / a file ending inside a multi-byte character, a fixed file whose line delimiter lies on an I/O block boundary (4-64 KiB) with an undecodable byte in the following block, ODS and XLSX truncated at several offsets, with a corrupted end or with damaged compressed cell data: every mode "
    "must deliver a prefix of the fault-free output and then raise DataFormatError. Non-trivial: >= 1 rejected row "
    "that is not the last, or a fault with >= 1 row before it; distinct by hash of (CID rows, table, fault)."
)
ASSUMPTIONS = [
    "a fault may surface before row k is delivered (decoding happens in chunks); only 'prefix, then DataFormatError' "
    "is required",
    "same assumptions on cells and tables as C04",
]


@st.composite
def cases(draw, kinds=gen_tables.KINDS):
    spec = draw(gen_tables.cid_specs(kinds=kinds))
    rows = draw(gen_tables.tables(spec))
    via = draw(st.sampled_from(["stream", "path"]))
    # the counters are also read after passes with a validation limit (rows behind it are handed on unvalidated)
    until = draw(st.sampled_from([None, None, 0, 1, 2, 4]))
    return {"spec": spec, "rows": rows, "via": via, "until": until}


def _describe(item):
    if isinstance(item, Exception):
        location = item.location
        return ("error", type(item).__name__, str(item), None if location is None else location.line)
    return ("row", item)


def _read(spec, rows, tmpdir, via, mode, name):
    cid = c04.load(spec)
    source, base = gen_tables.write_source(spec, rows, tmpdir, via, name=name)
    items, ended = c04.read_all(cid, source, mode)
    return [_describe(i) for i in items], ended


def check_case(sub, case):
    spec, rows, via = case["spec"], case["rows"], case["via"]
    fmt_name = spec["fmt"]["kind"]
    tmpdir = reused_dir("c06")
    try:
        try:
            y_items, y_end = _read(spec, rows, tmpdir, via, "yield", "data")
            c_items, c_end = _read(spec, rows, tmpdir, via, "continue", "data")
            r_items, r_end = _read(spec, rows, tmpdir, via, "raise", "data")
        except Exception as error:
            sub.fail("C06|harness-or-load|%s|%s" % (type(error).__name__, norm_message(error)), case, repr(error))
            return
        for name, end in (("yield", y_end), ("continue", c_end), ("raise", r_end)):
            if end is not None and not isinstance(end, errors.DataError):
                sub.fail("C06|exception|%s|%s|%s" % (name, type(end).__name__, fmt_name), case,
                         "mode %s raised %s: %s" % (name, type(end).__name__, end))
                return
        sub.evaluations += 3
        y_rows = [i for i in y_items if i[0] == "row"]
        if c_items != y_rows:
            sub.fail("C06|continue-differs|%s" % fmt_name, case,
                     "continue delivered %r but the rows of yield are %r" % (c_items, y_rows))
        if (c_end is None) != (y_end is None) or (c_end is not None and (type(c_end), str(c_end)) != (type(y_end), str(y_end))):
            sub.fail("C06|continue-end-differs|%s" % fmt_name, case,
                     "continue ended with %r, yield with %r" % (c_end, y_end))
        first_error = next((n for n, i in enumerate(y_items) if i[0] == "error"), None)
        if first_error is None:
            if r_items != y_items:
                sub.fail("C06|raise-differs-without-error|%s" % fmt_name, case, "raise %r, yield %r" % (r_items, y_items))
            if (r_end is None) != (y_end is None) or (r_end is not None and str(r_end) != str(y_end)):
                sub.fail("C06|raise-end-differs|%s" % fmt_name, case, "raise ended with %r, yield with %r" % (r_end, y_end))
        else:
            wanted = y_items[first_error]
            if r_items != y_items[:first_error]:
                sub.fail("C06|raise-prefix-differs|%s" % fmt_name, case,
                         "raise delivered %r before failing, yield %r" % (r_items, y_items[:first_error]))
            if r_end is None:
                sub.fail("C06|raise-did-not-raise|%s" % fmt_name, case, "yield reports %r but raise ended normally" % (wanted,))
            else:
                got = _describe(r_end)
                if got != wanted:
                    sub.fail("C06|raise-other-error|expected-%s|got-%s|%s" % (wanted[1], got[1], fmt_name), case,
                             "raise mode surfaced %r instead of the first rejection %r" % (got, wanted))
        # counters through the Reader object
        seen_counter_runs = set()
        for mode, until in (("yield", None), ("continue", None), ("yield", case.get("until")),
                            ("continue", case.get("until"))):
            if until is None and (mode, until) in seen_counter_runs:
                continue
            seen_counter_runs.add((mode, until))
            cid = c04.load(spec)
            source, _ = gen_tables.write_source(spec, rows, tmpdir, via, name="count-" + mode)
            reader = validio.Reader(cid, source, on_error=mode, validate_until=until)
            produced = []
            try:
                for item in reader.rows():
                    produced.append(item)
            except errors.DataError:
                continue
            finally:
                try:
                    reader.close()
                except errors.DataError:
                    pass
            stored = gen_tables.stored_rows(spec, rows)
            data_rows = max(0, len(stored) - spec["fmt"].get("header", 0))
            sub.evaluations += 1
            if reader.accepted_rows_count + reader.rejected_rows_count != data_rows:
                sub.fail("C06|counters-sum|%s|%s%s" % (mode, fmt_name, "" if until is None else "|limit"), case,
                         "accepted %r + rejected %r != %d data rows (validation limit %r)" % (
                             reader.accepted_rows_count, reader.rejected_rows_count, data_rows, until))
            n_rows = len([i for i in produced if not isinstance(i, Exception)])
            if reader.accepted_rows_count != n_rows:
                sub.fail("C06|accepted-counter|%s|%s" % (mode, fmt_name), case,
                         "accepted_rows_count %r but %d rows delivered" % (reader.accepted_rows_count, n_rows))
        errors_at = [n for n, i in enumerate(y_items) if i[0] == "error"]
        nontrivial = bool(errors_at) and errors_at[0] < len(y_items) - 1
        sub.case((str(case["spec"]["fields"]), rows, via), nontrivial,
                 ["format:" + fmt_name, "errors:%d" % min(len(errors_at), 3), "end:%s" % ("ok" if y_end is None else type(y_end).__name__)],
                 sample={"format": fmt_name, "rows": rows[:5], "yield": [i[0] for i in y_items][:8],
                         "raise_end": None if r_end is None else type(r_end).__name__}, evals=0)
    finally:
        shutil.rmtree(tmpdir, ignore_errors=True)


# -- faults --------------------------------------------------------------------------------------
FAULTS = {
    "delimited": ["undecodable-byte", "unterminated-quote", "truncated-character-at-end"],
    "fixed": ["short-record", "undecodable-byte", "short-record-stream", "cut-line-delimiter", "wrong-line-delimiter",
              "truncated-character-at-end"],
    "ods": ["truncate", "corrupt-end", "not-a-zip", "corrupt-payload", "corrupt-payload"],
    "excel": ["truncate", "corrupt-end", "not-a-zip", "corrupt-payload", "corrupt-payload"],
}


_LINE_END_TEXT = {"LF": "\n", "CR": "\r", "CRLF": "\r\n", "Any": "\n"}


@st.composite
def fault_cases(draw):
    kind = draw(st.sampled_from(["delimited", "fixed", "fixed", "ods", "excel"]))
    spec = draw(gen_tables.cid_specs(kinds=(kind,), max_header=1))
    rows = draw(gen_tables.tables(spec, max_rows=6))
    fault = draw(st.sampled_from(FAULTS[kind]))
    k = draw(st.integers(0, max(len(rows), 1)))
    if fault == "cut-line-delimiter":
        spec["fmt"]["line_delimiter"] = "CRLF"
    elif fault == "wrong-line-delimiter":
        spec["fmt"]["line_delimiter"] = draw(st.sampled_from(["LF", "CR", "CRLF"]))
    if fault in ("cut-line-delimiter", "wrong-line-delimiter") and rows:
        k = draw(st.integers(1, len(rows)))
    fraction = draw(st.integers(1, 99))
    return {"spec": spec, "rows": rows, "fault": fault, "k": k, "fraction": fraction}


def _inject(spec, rows, fault, k, fraction, tmpdir):
    """Returns the faulty source (path or stream) or None if the fault does not apply."""
    import io

    kind = spec["fmt"]["format"]
    k = min(k, len(rows))
    if kind == "delimited":
        good = gen_tables.delimited_text(rows[:k], fmt=spec["fmt"]).encode("utf-8")
        rest = gen_tables.delimited_text(rows[k:], fmt=spec["fmt"]).encode("utf-8")
        quote = (spec["fmt"].get("quote_character") or '"').encode("utf-8")
        if fault == "undecodable-byte":
            data = good + quote + b"a\xff\xfeb" + quote + b"\n" + rest
        elif fault == "truncated-character-at-end":
            # the file ends after the first byte of a two-byte character, with or without a line break before it
            data = (good[:-1] if fraction % 2 and good else good) + (b"\xc3" if fraction % 4 < 2 else quote + b"\xc3")
        else:
            # a quote that is opened and never closed: no quote character of the dialect may follow it
            data = good + quote + b"never closed," + rest.replace(quote, b"`")
        path = os.path.join(tmpdir, "fault.csv")
        with open(path, "wb") as f:
            f.write(data)
        return path
    if kind == "fixed":
        good = gen_tables.fixed_text(rows[:k], spec["fmt"])
        rest = gen_tables.fixed_text(rows[k:], spec["fmt"])
        width = sum(f["length_items"][0][0] for f in spec["fields"])
        if fault in ("cut-line-delimiter", "wrong-line-delimiter"):
            # the input ends in the middle of a CRLF delimiter / uses a delimiter the setting does not permit
            if k == 0:
                return None
            declared = spec["fmt"].get("line_delimiter")
            if fault == "cut-line-delimiter":
                if declared != "CRLF":
                    return None
                data = good[:-1].encode("utf-8")
            else:
                if declared not in ("LF", "CR", "CRLF"):
                    return None
                wrong = {"LF": "\r", "CR": "\n", "CRLF": "\n"}[declared]
                cut = len({"LF": "\n", "CR": "\r", "CRLF": "\r\n"}[declared])
                data = (good[:-cut] + wrong + rest).encode("utf-8")
        elif fault == "undecodable-byte":
            data = good.encode("utf-8") + b"\xff" * width + b"\n" + rest.encode("utf-8")
        elif fault == "truncated-character-at-end":
            # complete records, the last one without its line delimiter, then the first byte of a two-byte character:
            # the decoder fails where the reader looks for a line delimiter or for the next record
            ending = len(_LINE_END_TEXT.get(spec["fmt"].get("line_delimiter"), "\n"))
            data = (good[:-ending] if fraction % 2 and good else good).encode("utf-8") + b"\xc3"
        else:
            if width < 2:
                return None
            data = (good + "x" * (width - 1)).encode("utf-8")
        if fault == "short-record-stream" or (fault in ("cut-line-delimiter", "wrong-line-delimiter") and k % 2):
            return io.StringIO(data.decode("utf-8"), newline="")
        path = os.path.join(tmpdir, "fault.txt")
        with open(path, "wb") as f:
            f.write(data)
        return path
    source, _ = gen_tables.write_source(spec, rows, tmpdir, "path", name="whole")
    with open(source, "rb") as f:
        data = f.read()
    if fault == "corrupt-payload":
        # damage the compressed bytes of the member that holds the cells (the archive directory stays intact)
        import struct
        import zipfile

        with zipfile.ZipFile(source) as archive:
            infos = [i for i in archive.infolist() if i.filename == "content.xml" or "worksheets/sheet" in i.filename]
            info = infos[fraction % len(infos)]
        name_length, extra_length = struct.unpack("<HH", data[info.header_offset + 26:info.header_offset + 30])
        start = info.header_offset + 30 + name_length + extra_length
        size = max(1, info.compress_size)
        if fraction % 3 == 0:
            data = data[:start] + b"\x07" + data[start + 1:]
        else:
            at = start + (fraction * size // 100) % size
            data = data[:at] + b"\xff" * min(8, start + size - at) + data[at + min(8, start + size - at):]
    elif fault == "truncate":
        data = data[: max(1, len(data) * fraction // 100)]
    elif fault == "corrupt-end":
        cut = max(1, min(len(data) - 1, len(data) - 1 - fraction))
        data = data[:cut] + bytes((b ^ 0x5A) for b in data[cut:])
    else:
        data = b"this is not a zip archive\n" * 3
    path = os.path.join(tmpdir, "fault" + os.path.splitext(source)[1])
    with open(path, "wb") as f:
        f.write(data)
    return path


def check_fault(sub, case):
    spec, rows, fault, k = case["spec"], case["rows"], case["fault"], case["k"]
    fmt_name = spec["fmt"]["format"]
    tmpdir = reused_dir("c06f")
    try:
        try:
            base_items, _ = _read(spec, rows, tmpdir, "path", "yield", "base")
        except Exception as error:
            sub.fail("C06|harness-or-load|%s|%s" % (type(error).__name__, norm_message(error)), case, repr(error))
            return
        outcomes = {}
        for mode in ("yield", "continue", "raise"):
            source = _inject(spec, rows, fault, k, case["fraction"], tmpdir)
            if source is None:
                return
            cid = c04.load(spec)
            items, ended = c04.read_all(cid, source, mode)
            items = [_describe(i) for i in items]
            outcomes[mode] = (items, ended)
            sub.evaluations += 1
            where = "%s|%s|%s" % (fault, fmt_name, mode)
            if mode == "raise" and ended is not None and not isinstance(ended, errors.DataFormatError) \
                    and isinstance(ended, errors.DataError):
                continue  # an ordinary rejection before the fault
            if ended is None:
                plain = [i if i[0] == "row" else i[:2] for i in items]
                plain_base = [i if i[0] == "row" else i[:2] for i in _expected_for(mode, base_items)]
                if fault in ("truncate", "corrupt-end", "corrupt-payload") and plain == plain_base:
                    sub.cls("fault-harmless")  # the damage did not touch what is read
                    continue
                sub.fail("C06|fault-swallowed|%s" % where, case,
                         "fault %s at row %d: reading ended normally with %r" % (fault, k, items))
                continue
            if isinstance(ended, errors.CheckError):
                if fault in ("truncate", "corrupt-end", "corrupt-payload"):
                    sub.cls("fault-harmless")
                    continue
                sub.fail("C06|fault-swallowed|%s" % where, case,
                         "fault %s at row %d: reading ended with the end-of-data check %s" % (fault, k, ended))
                continue
            if not isinstance(ended, errors.DataFormatError):
                sub.fail("C06|fault-exception|%s|%s" % (type(ended).__name__, where), case,
                         "fault %s at row %d raised %s: %s" % (fault, k, type(ended).__name__, ended))
                continue
            if fmt_name in ("delimited", "fixed"):
                reference = _expected_for(mode, base_items)
                comparable = [i if i[0] == "row" else i[:2] for i in items]
                wanted = [i if i[0] == "row" else i[:2] for i in reference[: len(items)]]
                if comparable != wanted:
                    sub.fail("C06|fault-prefix|%s" % where, case,
                             "before the fault %r was delivered, fault-free reading gives %r" % (items, reference))
        sub.case((str(spec["fields"]), rows, fault, k, case["fraction"]), k >= 1 + spec["fmt"].get("header", 0),
                 ["fault:%s:%s" % (fmt_name, fault)],
                 sample={"format": fmt_name, "fault": fault, "k": k, "rows": rows[:4]}, evals=0)
    finally:
        shutil.rmtree(tmpdir, ignore_errors=True)


# -- an undecodable byte in the block of bytes whose decoding starts at a line delimiter -------------------------------
_BLOCK_DELIMITERS = {"LF": "\n", "CR": "\r", "CRLF": "\r\n", "Any": "\n", "Any-CRLF": "\r\n", "Any-CR": "\r"}


def _block_cases(thorough):
    cases_ = []
    for target in ((8192, 16384) if not thorough else (4096, 8192, 16384, 32768, 65536)):
        for width in ((1, 2, 5, 8) if not thorough else (1, 2, 3, 4, 5, 7, 8, 10, 32)):
            for delimiter in sorted(_BLOCK_DELIMITERS):
                for align in range(len(_BLOCK_DELIMITERS[delimiter]) + 1):
                    for distance in (0, 2):
                        cases_.append({"fault": "undecodable-after-block-boundary", "target": target, "width": width,
                                       "delimiter": delimiter, "align": align, "distance": distance})
    return cases_


def _block_bytes(case):
    """A fixed-width file (one Text field) whose line delimiter number n+1 has its byte number ``align`` at offset
    ``target`` (align = its length: the next record starts there), all bytes before that offset valid, and a byte that
    is not UTF-8 ``distance`` records later.  Returns (bytes, records before the delimiter at the boundary)."""
    width, end = case["width"], _BLOCK_DELIMITERS[case["delimiter"]].encode("ascii")
    size = width + len(end)
    before = case["target"] - width - case["align"]
    count, extra = divmod(before, size)
    if extra > count:
        return None
    records = []
    data = b""
    for index in range(count + 1):
        record = ("%d" % (index % 10)) * width
        if index < extra:
            record = record[:-1] + "\xe9"  # one byte more, the same number of characters
        records.append(record)
        data += record.encode("utf-8") + end
    assert len(data) - len(end) + case["align"] == case["target"], (len(data), case)
    for index in range(case["distance"]):
        data += b"y" * width + end
    data += b"\xff" * width + end + (b"z" * width + end) * 3
    return data, records


def check_block_fault(sub, case):
    from vlib import cidlib

    built = _block_bytes(case)
    if built is None:
        return
    data, records = built
    setting = case["delimiter"].split("-")[0]
    cid_rows = [["D", "Format", "Fixed"], ["D", "Line delimiter", setting], ["D", "Encoding", "utf-8"],
                ["F", "t", "", "", str(case["width"]), "Text", ""]]
    tmpdir = tempfile.mkdtemp(prefix="c06b-")
    label = "%s|align-%d" % (case["delimiter"], case["align"])
    try:
        path = os.path.join(tmpdir, "block.txt")
        with open(path, "wb") as f:
            f.write(data)
        for mode in ("yield", "continue", "raise"):
            items, ended = c04.read_all(cidlib.load_cid(cid_rows), path, mode)
            sub.evaluations += 1
            if ended is None:
                sub.fail("C06|fault-swallowed|undecodable-after-block-boundary|%s|%s" % (label, mode), case,
                         "a file with a byte that is not UTF-8 was read to its end (%d rows)" % len(items))
            elif not isinstance(ended, errors.DataFormatError):
                sub.fail("C06|fault-exception|%s|undecodable-after-block-boundary|%s|%s" % (
                    type(ended).__name__, label, mode), case,
                    "byte 0xff in the block that starts with byte %d of a line delimiter: %s: %s" % (
                        case["align"], type(ended).__name__, ended))
            delivered = [item for item in items if not isinstance(item, Exception)]
            wanted = [[record] for record in records] + [["y" * case["width"]]] * case["distance"]
            if delivered != wanted[:len(delivered)] or len(delivered) != len(items):
                sub.fail("C06|fault-prefix|undecodable-after-block-boundary|%s|%s" % (label, mode), case,
                         "%d items delivered; the first that differs from the records of the file is number %d" % (
                             len(items), next((i for i, (a, b) in enumerate(zip(items, wanted)) if a != b), -1)))
    finally:
        shutil.rmtree(tmpdir, ignore_errors=True)


def _block_shard(args):
    from vlib.runner import Sub

    index, count, cases_ = args
    sub = Sub("block-faults")
    for case in cases_[index::count]:
        check_block_fault(sub, case)
    evals = sub.evaluations
    sub.evaluations = 0
    sub.bulk(evals, evals, {"fault:fixed:undecodable-after-block-boundary": evals})
    if index == 0 and cases_:
        sub.samples.append(cases_[0])
    return sub


def _expected_for(mode, base_items):
    if mode == "yield":
        return base_items
    if mode == "continue":
        return [i for i in base_items if i[0] == "row"]
    out = []
    for i in base_items:
        if i[0] == "error":
            break
        out.append(i)
    return out


def run(ctx):
    ctx.hyp("modes-text", lambda: cases(("delimited", "delimited-de", "fixed")), check_case, ctx.n(2000, 20000))
    ctx.hyp("modes-sheets", lambda: cases(("excel", "ods")), check_case, ctx.n(500, 5000))
    ctx.hyp("faults", fault_cases, check_fault, ctx.n(500, 12000))
    blocks = _block_cases(not ctx.quick)
    ctx.par(_block_shard, [(i, ctx.workers, blocks) for i in range(ctx.workers)])


def replay(sub, case):
    if case.get("fault") == "undecodable-after-block-boundary":
        check_block_fault(sub, case)
    elif "fault" in case:
        check_fault(sub, case)
    else:
        check_case(sub, case)
