"""C08 - validation outcomes do not depend on what the CID was used for before."""
import io
import itertools
import os

from hypothesis import strategies as st

from vlib import cidlib, gen_tables
from vlib.runner import norm_message

import cutplace
from cutplace import errors, validio

PROPERTY_ID = "C08"
RULE = (
    "One shared Cid object (delimited; key Text, val Choice, grp Text; IsUnique key; DistinctCount val <= 2; "
    "DistinctCount grp == 1) and an alphabet of 21 operations: read clean data, read data with a duplicate key, "
    "read data with three distinct values, read and abandon after 1 / 2 rows, read fully without close(), read in "
    "'raise' mode ending in a field error, read in 'continue' mode, validate with limit 0 / 1 / none, write rows "
    "without close, write and close, write a duplicate, abandon a read and keep it open, leave a reader unclosed and "
    "keep it, read / write while those kept runs are closed in the middle, request the rows of a data set but consume them only after another complete run - over data sets that share key values and distinct-count "
    "values. Every sequence of up to 4 (thorough: 5) operations is executed exhaustively; Hypothesis adds "
    "sequences of up to 30 operations with generated data (thorough: more). Oracle (differential): the outcome of "
    "each operation on the shared CID (items, rejections as type/text/row/column/see-also row, final exception) "
    "must equal the outcome of the same operation on a CID freshly loaded from the same rows. Non-trivial: a "
    "sequence in which a later operation touches a key or value an earlier one registered (every sequence of >= 2 "
    "operations here, since all data sets share keys); sequences are distinct by construction."
    "Every data set is a stream with a name derived from its content, so that messages that refer to another data set's file are noticed."
    "Writers are handed the very row objects an earlier complete reading of the same table delivered; a writer may be set up in the main thread and fed by the one worker thread of the process."
)
ASSUMPTIONS = [
    "runs are started one after the other; the only interleaving is the late finalisation (close) of an earlier "
    "abandoned or never closed run in the middle of a later one, as garbage collection may do it",
    "the outcome of an operation on a fresh CID is deterministic (checked: computed twice)",
]
EXHAUSTIVE = True
EXHAUSTIVE_SCOPE = "all sequences of 1-4 (thorough: 1-5) operations over the 21-operation alphabet"

CID_ROWS = [
    ["D", "Format", "Delimited"],
    ["D", "Header", "1"],
    ["F", "key", "", "", "", "Text", ""],
    ["F", "val", "", "", "", "Choice", "a, b, c, d"],
    ["F", "grp", "", "X", "", "Text", ""],
    ["C", "key is unique", "IsUnique", "key"],
    ["C", "few values", "DistinctCount", "val <= 2"],
    ["C", "one group", "DistinctCount", "grp == 1"],
]
HEAD = [["key", "val", "grp"]]
CLEAN = HEAD + [["1", "a", "g"], ["2", "b", "g"], ["3", "a", "g"]]
# the duplicate row carries a value no accepted row has: it must never reach the checks declared after IsUnique
DUP = HEAD + [["1", "a", "g"], ["4", "b", "g"], ["1", "c", "g"], ["5", "a", "g"]]
THREE = HEAD + [["6", "c", "g"], ["2", "d", "g"], ["7", "a", "g"]]
BAD = HEAD + [["8", "c", "g"], ["9", "zzz", "g"], ["1", "a", "g"]]
OTHER_GROUP = HEAD + [["1", "c", "h"], ["2", "c", "h"]]


def _text(rows):
    return "".join(",".join(row) + "\n" for row in rows)


class _NamedStream(io.StringIO):
    name = None


def _stream(text):
    """The data as a stream with a name of its own: what a data set is called is derived from its content, so that
    two data sets of one history are told apart by name and the same run on a fresh CID sees the same name."""
    import zlib

    result = _NamedStream(text, newline="")
    result.name = "data-%08x.csv" % zlib.crc32(text.encode("utf-8", "surrogatepass"))
    return result


def _describe(item):
    if isinstance(item, Exception):
        location = getattr(item, "location", None)
        also = getattr(item, "see_also_location", None)
        cell = None
        if location is not None:
            try:
                cell = location.cell
            except AssertionError:  # a location that counts characters instead of cells
                cell = None
        return ["error", type(item).__name__, str(item), None if location is None else location.line,
                cell, None if also is None else also.line]
    return ["row", list(item)]


def _finalize(held):
    """Close everything earlier operations left open (abandoned generators, never closed readers)."""
    while held:
        thing = held.pop()
        try:
            thing.close()
        except Exception:
            pass  # whatever an abandoned run says when it is finally closed is not this run's outcome


def _read(cid, rows, mode="yield", take=None, until=None, held=None, keep=False, late_close_after=None):
    out = []
    ended = None
    generator = cutplace.rows(cid, _stream(_text(rows)), on_error=mode, validate_until=until)
    delivered = []
    try:
        for item in generator:
            out.append(_describe(item))
            if isinstance(item, list):
                delivered.append(item)
            if late_close_after is not None and len(out) == late_close_after:
                _finalize(held)
            if take is not None and len(out) >= take:
                break
        else:
            # what a complete reading delivered is what a later writing of the same table hands over: the very objects
            if len(_DELIVERED) > 64:
                _DELIVERED.clear()
            _DELIVERED[_text(rows)] = delivered
    except Exception as error:
        ended = _describe(error)
    finally:
        if keep:
            held.append(generator)
        else:
            try:
                generator.close()
            except Exception as error:
                ended = ["close-error"] + _describe(error)
    return {"items": out, "ended": ended}


_DELIVERED = {}


def _deferred_read(cid, rows, rows_between):
    generator = cutplace.rows(cid, _stream(_text(rows)), on_error="yield")
    between = _read(cid, rows_between)
    out = []
    ended = None
    try:
        for item in generator:
            out.append(_describe(item))
    except Exception as error:
        ended = _describe(error)
    return {"items": out, "ended": ended, "between": between}


def _read_noclose(cid, rows, held=None, keep=False):
    reader = validio.Reader(cid, _stream(_text(rows)), on_error="yield")
    out = []
    ended = None
    try:
        for item in reader.rows():
            out.append(_describe(item))
    except Exception as error:
        ended = _describe(error)
    if keep:
        held.append(reader)
    return {"items": out, "ended": ended}


def _validate(cid, rows, until):
    try:
        cutplace.validate(cid, _stream(_text(rows)), validate_until=until)
        return {"ended": None}
    except Exception as error:
        return {"ended": _describe(error)}


_WORKER = []


def _in_worker(function):
    """Run ``function`` in the one worker thread of this process (created on first use, then used again and again,
    as the worker of a thread pool is)."""
    import concurrent.futures

    if not _WORKER or _WORKER[0][0] != os.getpid():
        _WORKER[:] = [(os.getpid(), concurrent.futures.ThreadPoolExecutor(max_workers=1))]
    return _WORKER[0][1].submit(function).result()


def _write(cid, rows, close, held=None, late_close_after=None, objects=None, worker=False):
    if worker:
        # the writer is set up here, the rows are written (and the writer is closed) by the worker thread
        target = io.StringIO()
        try:
            writer = cutplace.Writer(cid, target)
        except Exception as error:
            return {"items": [], "ended": ["construct"] + _describe(error), "text": ""}
        return _in_worker(lambda: _write_with(writer, target, rows, close, held, late_close_after, objects))
    target = io.StringIO()
    try:
        writer = cutplace.Writer(cid, target)
    except Exception as error:
        return {"items": [], "ended": ["construct"] + _describe(error), "text": ""}
    return _write_with(writer, target, rows, close, held, late_close_after, objects)


def _write_with(writer, target, rows, close, held, late_close_after, objects):
    out = []
    ended = None
    objects = objects if objects is not None else (_DELIVERED.get(_text(rows)) or [])
    for index, row in enumerate(rows):
        if late_close_after is not None and len(out) == late_close_after:
            _finalize(held)
        handed = objects[index] if index < len(objects) and objects[index] == list(row) else list(row)
        try:
            writer.write_row(handed)
            out.append(["written", list(row)])
        except Exception as error:
            out.append(_describe(error))
    if close:
        try:
            writer.close()
        except Exception as error:
            ended = _describe(error)
    return {"items": out, "ended": ended, "text": target.getvalue()}


OPS = {
    "read-clean": lambda cid, held: _read(cid, CLEAN),
    "read-dup": lambda cid, held: _read(cid, DUP),
    "read-three": lambda cid, held: _read(cid, THREE),
    "read-other-group": lambda cid, held: _read(cid, OTHER_GROUP),
    "abandon-1": lambda cid, held: _read(cid, THREE, take=1),
    "abandon-2": lambda cid, held: _read(cid, DUP, take=2),
    "abandon-keep": lambda cid, held: _read(cid, THREE, take=1, held=held, keep=True),
    "read-noclose": lambda cid, held: _read_noclose(cid, THREE),
    "noclose-keep": lambda cid, held: _read_noclose(cid, CLEAN, held=held, keep=True),
    "raise-bad": lambda cid, held: _read(cid, BAD, mode="raise"),
    "continue-bad": lambda cid, held: _read(cid, BAD, mode="continue"),
    "validate-0": lambda cid, held: _validate(cid, CLEAN, 0),
    "validate-1": lambda cid, held: _validate(cid, DUP, 2),
    "validate-all": lambda cid, held: _validate(cid, CLEAN, None),
    "write-noclose": lambda cid, held: _write(cid, THREE, False),
    "write-close": lambda cid, held: _write(cid, CLEAN, True),
    "write-dup": lambda cid, held: _write(cid, DUP, True),
    "write-close-worker": lambda cid, held: _write(cid, CLEAN, True, worker=True),
    "write-three-worker": lambda cid, held: _write(cid, THREE, True, worker=True),
    # an earlier abandoned / never closed run is finalized (garbage collected, closed) in the middle of this run
    "lateclose-read-dup": lambda cid, held: _read(cid, DUP, held=held, late_close_after=2),
    # the rows of a data set are requested, another complete run happens, only then are they consumed
    "deferred-read-dup": lambda cid, held: _deferred_read(cid, DUP, CLEAN),
    "deferred-read-three": lambda cid, held: _deferred_read(cid, THREE, OTHER_GROUP),
    "lateclose-write-dup": lambda cid, held: _write(cid, DUP, True, held=held, late_close_after=2),
}
OP_NAMES = sorted(OPS)


def _plain_reference(rows, rows_between):
    """What a deferred read must deliver: each of its two runs as if it had a freshly loaded CID of its own."""
    main = _read(cidlib.load_cid(CID_ROWS), rows)
    return {"items": main["items"], "ended": main["ended"], "between": _read(cidlib.load_cid(CID_ROWS), rows_between)}


REFERENCES = {
    "deferred-read-dup": lambda: _plain_reference(DUP, CLEAN),
    "deferred-read-three": lambda: _plain_reference(THREE, OTHER_GROUP),
}


def _fresh_outcomes():
    outcomes = {}
    for name in OP_NAMES:
        if name in REFERENCES:
            outcomes[name] = REFERENCES[name]()
            continue
        first = OPS[name](cidlib.load_cid(CID_ROWS), [])
        second = OPS[name](cidlib.load_cid(CID_ROWS), [])
        if first != second:
            raise RuntimeError("operation %s is not deterministic on a fresh CID" % name)
        outcomes[name] = first
    return outcomes


def run_sequence(sub, names, fresh):
    cid = cidlib.load_cid(CID_ROWS)
    held = []
    for position, name in enumerate(names):
        try:
            actual = OPS[name](cid, held)
        except Exception as error:
            sub.fail("C08|harness|%s|%s" % (name, type(error).__name__), {"ops": list(names)}, repr(error))
            return
        sub.evaluations += 1
        if actual != fresh[name]:
            previous = names[position - 1] if position else "-"
            culprit = _first_difference(fresh[name], actual)
            sub.fail("C08|differs|%s|%s" % (_kind(name), culprit), {"ops": list(names)},
                     "operation %d (%s) after %s: on the shared CID %r, on a fresh CID %r" % (
                         position + 1, name, list(names[:position]), actual, fresh[name]))
            _finalize(held)
            return
    _finalize(held)


def _kind(name):
    return name.split("-")[0]


def _first_difference(fresh, actual):
    if fresh.get("ended") != actual.get("ended"):
        got = actual.get("ended")
        return "end:%s" % ("none" if got is None else got[1] if got[0] == "error" else got[0])
    for want, got in zip(fresh.get("items", []), actual.get("items", [])):
        if want != got:
            return "item:%s" % (got[1] if got[0] == "error" else got[0])
    return "items"


def _shard(args):
    from vlib.runner import Sub

    index, count, max_length = args
    sub = Sub("sequences")
    fresh = _fresh_outcomes()
    number = 0
    before = 0
    nontrivial = 0
    for length in range(1, max_length + 1):
        for names in itertools.product(OP_NAMES, repeat=length):
            number += 1
            if number % count != index:
                continue
            run_sequence(sub, names, fresh)
            if length >= 2:
                nontrivial += 1
            if number % 5003 == 0 and len(sub.samples) < 3:
                sub.samples.append({"ops": list(names)})
    evals = sub.evaluations
    sub.evaluations = 0
    sub.bulk(evals, nontrivial, {"sequences": number // count})
    return sub


# -- long generated sequences with generated data ------------------------------------------------------
@st.composite
def long_cases(draw):
    n = draw(st.integers(5, 30))
    return {"ops": [draw(st.sampled_from(OP_NAMES)) for _ in range(n)]}


_FRESH = {}


def check_long(sub, case):
    if not _FRESH:
        _FRESH.update(_fresh_outcomes())
    names = [n for n in case["ops"] if n in OPS]
    run_sequence(sub, names, _FRESH)
    kinds = sorted(set(_kind(n) for n in names))
    sub.case(tuple(names), len(names) >= 2, ["long:len>=%d" % (len(names) // 10 * 10)] + ["long:has-" + k for k in kinds],
             sample={"ops": names}, evals=0)


# -- a long run first ------------------------------------------------------------------------------------------------------------
# More rows than 2**17 (and than 10**5): whatever a check keeps per key or per row in tiers, caches or spill structures
# has switched to its big-data mode by the end of such a run.  The run after it uses keys and values from the LAST rows of
# the long one.
BIG_ROWS = 131100


def _big_table():
    return HEAD + [[str(1000000 + index), "ab"[index % 2], "g"] for index in range(BIG_ROWS)]


def _tail_table():
    return HEAD + [[str(1000000 + BIG_ROWS - 1 - 7 * index), "ab"[index % 2], "g"] for index in range(4)]


def _big_shard(name):
    from vlib.runner import Sub

    sub = Sub("after-long-run")
    big, tail = _big_table(), _tail_table()
    followers = {
        "read": lambda cid: _read(cid, tail),
        "read-continue": lambda cid: _read(cid, tail, mode="continue"),
        "validate": lambda cid: _validate(cid, tail, None),
        "write": lambda cid: _write(cid, tail[1:], True),
    }
    first = {"read-first": lambda cid: _read(cid, big, mode="continue"),
             "write-first": lambda cid: _write(cid, big[1:], True)}
    for first_name, first_op in sorted(first.items()):
        if (first_name == "write-first") != name.startswith("write|"):
            continue
        follower = followers[name.split("|")[1]]
        shared = cidlib.load_cid(CID_ROWS)
        long_run = first_op(shared)
        if long_run.get("ended") is not None or any(item[0] == "error" for item in long_run.get("items", [])):
            sub.fail("C08|harness|long-run", {"big": name}, "the long run itself failed: %r" % (long_run.get("ended"),))
            continue
        actual = follower(shared)
        fresh = follower(cidlib.load_cid(CID_ROWS))
        sub.evaluations += 1
        if actual != fresh:
            sub.fail("C08|differs|after-long-run|%s" % _first_difference(fresh, actual), {"big": name},
                     "after a run of %d rows (%s) the run %s gives %r on the shared CID and %r on a fresh one" % (
                         BIG_ROWS, first_name, name, actual, fresh))
    sub.bulk(sub.evaluations, sub.evaluations, {"after-long-run": sub.evaluations})
    sub.evaluations = 0
    sub.samples.append({"big": name, "rows_of_the_long_run": BIG_ROWS})
    return sub


BIG_CASES = ["read|read", "read|read-continue", "read|validate", "read|write", "write|read", "write|write"]


# -- generated CIDs, generated data sets, generated operation sequences ---------------------------------------------
_LINE_ENDS = {"LF": ["\n"], "CR": ["\r"], "CRLF": ["\r\n"], "Any": ["\n", "\r\n", "\r"], None: ["\n", "\r\n", "\r"]}


@st.composite
def generated_cases(draw):
    spec = draw(gen_tables.cid_specs(kinds=("delimited", "delimited-de", "fixed"), max_fields=3, max_header=1,
                                     checks=draw(st.sampled_from(["always", "always", "some"])), max_unique=2))
    tables = [draw(gen_tables.tables(spec, max_rows=6)) for _ in range(draw(st.integers(1, 3)))]
    ends = _LINE_ENDS[spec["fmt"].get("line_delimiter")]
    ops = []
    for _ in range(draw(st.integers(2, 8))):
        kind = draw(st.sampled_from(["read", "read", "abandon", "noclose", "validate", "write", "write"]))
        op = {"kind": kind, "table": draw(st.integers(0, len(tables) - 1)), "end": draw(st.sampled_from(ends))}
        if kind == "read":
            op["mode"] = draw(st.sampled_from(["yield", "continue", "raise"]))
            op["until"] = draw(st.sampled_from([None, None, 0, 1, 3]))
        elif kind == "abandon":
            op["take"] = draw(st.integers(1, 3))
        elif kind == "validate":
            op["until"] = draw(st.sampled_from([None, 0, 2]))
        elif kind == "write":
            op["close"] = draw(st.booleans())
            op["worker"] = draw(st.sampled_from([False, False, True]))
        ops.append(op)
    return {"spec": spec, "tables": tables, "ops": ops}


def _generated_text(spec, rows, end):
    if spec["fmt"]["format"] == "fixed":
        return "".join("".join(row) + end for row in rows)
    return gen_tables.delimited_text(rows, end, spec["fmt"])


def _generated_op(cid, spec, tables, op, held):
    rows = tables[op["table"]]
    kind = op["kind"]
    delivered_before = cid.__dict__.setdefault("_verif_delivered", {})
    if kind == "write":
        # the rows an earlier complete reading of this table delivered are handed to the writer as the objects they are
        return _write(cid, rows[spec["fmt"].get("header", 0):], op["close"],
                      objects=delivered_before.get(op["table"], []), worker=bool(op.get("worker")))
    source = _stream(_generated_text(spec, rows, op["end"]))
    if kind == "validate":
        try:
            cutplace.validate(cid, source, validate_until=op["until"])
            return {"ended": None}
        except Exception as error:
            return {"ended": _describe(error)}
    if kind == "noclose":
        reader = validio.Reader(cid, source, on_error="yield")
        held.append(reader)
        out, ended = [], None
        try:
            for item in reader.rows():
                out.append(_describe(item))
        except Exception as error:
            ended = _describe(error)
        return {"items": out, "ended": ended}
    out, ended = [], None
    generator = cutplace.rows(cid, source, on_error=op.get("mode", "yield"), validate_until=op.get("until"))
    delivered = []
    try:
        for item in generator:
            out.append(_describe(item))
            if isinstance(item, list):
                delivered.append(item)
            if kind == "abandon" and len(out) >= op["take"]:
                break
        else:
            delivered_before[op["table"]] = delivered
    except Exception as error:
        ended = _describe(error)
    finally:
        try:
            generator.close()
        except Exception as error:
            ended = ["close-error"] + _describe(error)
    return {"items": out, "ended": ended}


def check_generated(sub, case):
    spec, tables, ops = case["spec"], case["tables"], case["ops"]
    cid_rows = cidlib.cid_rows(spec["fmt"], spec["fields"], gen_tables.check_rows(spec))
    try:
        shared = cidlib.load_cid(cid_rows)
    except Exception as error:
        sub.fail("C08|cid-load|%s|%s" % (type(error).__name__, norm_message(error)), case,
                 "generated CID rejected: %s" % error)
        return
    held, fresh_held = [], []
    try:
        for position, op in enumerate(ops):
            actual = _generated_op(shared, spec, tables, op, held)
            fresh = _generated_op(cidlib.load_cid(cid_rows), spec, tables, op, fresh_held)
            sub.evaluations += 1
            if actual != fresh:
                sub.fail("C08|generated|differs|%s|%s|%s" % (spec["fmt"]["format"], op["kind"],
                                                            _first_difference(fresh, actual)), case,
                         "operation %d (%r) after %r: on the shared CID %r, on a fresh CID %r" % (
                             position + 1, op, ops[:position], actual, fresh))
                break
    finally:
        _finalize(held)
        _finalize(fresh_held)
    kinds = sorted(set(op["kind"] for op in ops))
    sub.case((cid_rows, tables, [sorted(op.items()) for op in ops]), bool(spec["checks"]) and len(ops) >= 2,
             ["generated:format:" + spec["fmt"]["format"], "generated:checks:%d" % len(spec["checks"])] +
             ["generated:has-" + k for k in kinds],
             sample={"cid": cid_rows, "tables": [t[:4] for t in tables], "ops": ops[:5]}, evals=0)


def run(ctx):
    shards = ctx.workers * 2
    ctx.par(_shard, [(i, shards, ctx.n(4, 5)) for i in range(shards)])
    ctx.hyp("long", long_cases, check_long, ctx.n(1500, 20000))
    ctx.par(_big_shard, list(BIG_CASES))
    ctx.hyp("generated", generated_cases, check_generated, ctx.n(800, 20000))


def replay(sub, case):
    if "big" in case:
        sub.merge(_big_shard(case["big"]))
        return
    if "spec" in case:
        check_generated(sub, case)
    else:
        check_long(sub, case)
