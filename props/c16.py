"""C16 - Excel cells render as documented text and the requested sheet is read."""
import datetime
import glob
import json
import math
import os
import re
import shutil
import tempfile

from hypothesis import strategies as st

from vlib import enc_xlsx, repo
from vlib.runner import HarnessError, Sub, reused_dir

import cutplace
from cutplace import errors, interface, rowio

PROPERTY_ID = "C16"
RULE = (
    "Hypothesis: workbooks written by the independent producer vlib/enc_xlsx.py (XlsxWriter used directly; shared or "
    "inline strings; 1900 or 1904 date system) with 1-3 sheets of pairwise different content, 0-6 ragged rows of 0-6 "
    "cells: strings (leading '=', number-, date- and boolean-looking texts, blanks, tabs, line breaks, non-ASCII, "
    "empty), whole numbers of both signs up to 2**53 (powers of 2 and 10 +-1), finite floats normalised to the 16 "
    "digits the producer stores (fractions, exponents, whole values >= 1e16, subnormals), numbers under currency / "
    "percent / scientific / fraction formats, booleans, date-times 1900-03-01..9999-12-31 at whole seconds and at "
    "1-999 ms past one (either neighbouring second is accepted, in the documented form) under 7 "
    "date formats, pure times under 7 time formats, formatted blanks, unwritten cells. Every sheet k is read with "
    "list(rowio.excel_rows(path, k)) and with cutplace.rows under a CID 'Format Excel, Sheet k' with one Text field "
    "per column; a sheet number beyond the last sheet must not deliver rows. One evaluation = one sheet read one "
    "way and compared with the cell model (verbatim strings; whole numbers as str(int(v)) below 1e16; any other "
    "number: text denotes the same double, whole ones without '.0', fractional ones with no more digits than repr; "
    "1/0; YYYY-MM-DD hh:mm:ss; hh:mm:ss; '' padding to the bounding box). Writer: tables of strings written with "
    "rowio.XlsxRowWriter and read back. Corpus: every .xls/.xlsx under tests/data read sheet by sheet and compared "
    "with what xlrd itself reports (dimensions, cell model). A workbook case is non-trivial when a sheet k >= 2 of "
    "a multi-sheet workbook is read or it holds a non-string cell; a writer case when it has >= 2 rows of different "
    "length or a cell with a special character; distinct by hash of the whole case."
    "Writer cells also hold texts that look like the file's own markup and CR / CR LF line breaks."
    "Workbooks under other names (.xls, .xlsm, none), worksheet parts outside xl/worksheets/, CIDs with one field less than the sheet is wide."
)
ASSUMPTIONS = [
    "XlsxWriter stores what it is told: numbers with 16 significant digits ('%.16G', generated floats are "
    "normalised to that first), date-times as serial numbers exact to well below a second, empty strings not at all",
    "xlrd classifies cells correctly (number formats of vlib.enc_xlsx are verified once per run against xlrd "
    "directly: date and time formats give date cells, the others number cells)",
    "xlsx cannot represent trailing empty rows or columns: the expected table is the bounding box of the valued "
    "cells; tables for the writer round trip may end in explicitly written empty cells (they must read back), only "
    "trailing rows without any cell are dropped from the expectation; generated workbooks keep a non-empty cell in the last row / column of "
    "their widest row",
    "formatted blank cells are only placed inside the bounding box (whether they extend a sheet's width is left open)",
    "negative zero may render as '0' or '-0'; for |v| >= 1e16 only value equality and the absence of a fractional "
    "suffix are asserted because the statement does not fix the notation there",
    "a request for a sheet beyond the last one must raise DataFormatError or deliver no rows; which is left open",
    "cells of type 'error' in the bundled fixtures and workbooks with the 1904 date system among the fixtures are "
    "not judged",
]

WHOLE_EXACT_BELOW = 1e16
_FRACTION_SUFFIX = re.compile(r"\.0*($|[eE])")
_ERROR = "<DataError>"


# -- cell model -------------------------------------------------------------------------------------------------
def _digits(text):
    """Number of digits the numeral spends on its mantissa."""
    mantissa = re.split("[eE]", text.strip())[0].lstrip("+-")
    if "." in mantissa:
        return len(mantissa.replace(".", "").lstrip("0"))
    return len(mantissa.lstrip("0").rstrip("0"))


def judge_number(value, text):
    """None if ``text`` is an admissible rendering of the stored double ``value``, else a reason."""
    try:
        parsed = float(text)
    except ValueError:
        return "is not a numeral"
    if parsed != value or math.isnan(parsed):
        return "denotes %r, not the stored value" % parsed
    if value.is_integer():
        if abs(value) < WHOLE_EXACT_BELOW:
            expected = str(int(value))
            if text != expected and not (value == 0 and text == "-0" and math.copysign(1.0, value) < 0):
                return "is not the whole number %r without fractional suffix" % expected
        elif _FRACTION_SUFFIX.search(text):
            return "is a whole number with a fractional suffix"
    elif _digits(text) > _digits(repr(value)):
        return "is not the shortest text for this value (%r is shorter)" % repr(value)
    return None


def judge_cell(cell, text):
    """(kind, reason) if ``text`` is not what the cell model demands for ``cell``, else None."""
    kind = enc_xlsx.kind_of(cell)
    if not isinstance(text, str):
        return kind, "is %s, not str" % type(text).__name__
    if kind in ("e", "k"):
        return None if text == "" else ("empty", "should be '' for a cell without value")
    if kind == "s":
        expected = cell if isinstance(cell, str) else cell[1]
        return None if text == expected else ("string", "should be the string %r verbatim" % expected)
    if kind == "n":
        reason = judge_number(enc_xlsx.number_value(cell), text)
        return None if reason is None else ("number", reason)
    if kind == "b":
        expected = "1" if cell[1] else "0"
        return None if text == expected else ("bool", "should be %r" % expected)
    if kind == "d":
        wanted = [cell[1]]
        if len(cell) > 3 and cell[3]:
            # a moment between two seconds: the documented form has no fraction, so either neighbour is right
            later = enc_xlsx.parse_datetime(cell[1]) + datetime.timedelta(seconds=1)
            wanted.append(later.strftime("%04d" % later.year + "-%m-%d %H:%M:%S"))
        return None if text in wanted else ("date", "should be %s" % " or ".join(repr(w) for w in wanted))
    assert kind == "t"
    wanted = [cell[1]]
    if len(cell) > 3 and cell[3]:
        seconds = sum(int(part) * scale for part, scale in zip(cell[1].split(":"), (3600, 60, 1))) + 1
        wanted.append(_clock(seconds))
    return None if text in wanted else ("time", "should be %s" % " or ".join(repr(w) for w in wanted))


def judge_table(rows, actual, cid_width=None):
    """
    Discrepancies [(signature suffix, message)] between what was read (``actual``) and the sheet ``rows``.
    With ``cid_width`` the sheet was read under a CID of that many fields: rows of another width must have
    been rejected (``_ERROR`` in ``actual``).
    """
    height, width = enc_xlsx.bounding_box(rows)
    if len(actual) != height:
        return [("dimension", "%d rows read, the sheet has %d" % (len(actual), height))]
    if cid_width is not None and height and width != cid_width:
        if all(item == _ERROR for item in actual):
            return []
        return [("dimension", "rows of width %d accepted under a CID with %d fields" % (width, cid_width))]
    result = []
    if any(item == _ERROR for item in actual):
        return [("cid|row-rejected", "row %d rejected by an all-Text CID of matching width" % (
            [item == _ERROR for item in actual].index(True) + 1))]
    short = [y for y, row in enumerate(actual) if len(row) < width]
    if any(len(row) > width for row in actual):
        return [("dimension", "a row has %d cells, the sheet is %d wide" % (max(map(len, actual)), width))]
    if short:
        result.append(("padding", "row %d has %d cells, the sheet is %d wide" % (
            short[0] + 1, len(actual[short[0]]), width)))
    seen = set()
    for y, actual_row in enumerate(actual):
        spec_row = rows[y] if y < len(rows) else []
        for x, text in enumerate(actual_row):
            cell = spec_row[x] if x < len(spec_row) else None
            verdict = judge_cell(cell, text)
            if verdict is not None and verdict[0] not in seen:
                seen.add(verdict[0])
                result.append(("render|" + verdict[0], "cell %r at row %d, column %d read as %r: %s" % (
                    cell, y + 1, x + 1, text if not isinstance(text, str) else text[:60], verdict[1])))
    return result


def _cid_for(sheet_number, width):
    cid = interface.Cid()
    rows = [["D", "Format", "Excel"], ["D", "Sheet", str(sheet_number)]]
    rows += [["F", "c%d" % (x + 1), "", "X", "", "Text", ""] for x in range(max(width, 1))]
    cid.read("c16-cid", rows)
    return cid


def _read(path, sheet_number, via, width):
    """('rows', list) | ('format-error', error) | ('exception', error)"""
    try:
        if via == "direct":
            return "rows", list(rowio.excel_rows(path, sheet_number))
        cid = _cid_for(sheet_number, width)
        items = []
        for item in cutplace.rows(cid, path, on_error="yield"):
            items.append(_ERROR if isinstance(item, Exception) else item)
        return "rows", items
    except errors.DataFormatError as error:
        return "format-error", error
    except Exception as error:
        return "exception", error


def _short(case):
    return {"kind": "workbook", "sheets": [list(enc_xlsx.bounding_box(rows)) for rows in case["sheets"]],
            "options": case.get("options"), "first": [row[:3] for row in case["sheets"][0][:2]]}


def _cell_classes(sheets):
    found = set()
    for rows in sheets:
        height, width = enc_xlsx.bounding_box(rows)
        if height == 0:
            found.add("sheet:empty")
        lengths = set()
        for y, row in enumerate(rows[:height]):
            row = row[:width]
            lengths.add(len(row))
            if not any(enc_xlsx.has_value(cell) for cell in row):
                found.add("row:interior-empty")
            for cell in row:
                kind = enc_xlsx.kind_of(cell)
                if kind == "s":
                    text = cell if isinstance(cell, str) else cell[1]
                    found.add("cell:string")
                    if text.startswith("="):
                        found.add("cell:string:leading-equals")
                    if text.endswith(".0"):
                        found.add("cell:string:ends-with-.0")
                    if text != text.strip() or "\n" in text or "\t" in text:
                        found.add("cell:string:blanks")
                    if any(ord(ch) > 127 for ch in text):
                        found.add("cell:string:non-ascii")
                elif kind == "n":
                    value = enc_xlsx.number_value(cell)
                    whole = value.is_integer()
                    if whole and abs(value) < WHOLE_EXACT_BELOW:
                        found.add("cell:number:whole:>=2^31" if abs(value) >= 2 ** 31 else "cell:number:whole:small")
                        if abs(value) >= 2 ** 53 - 1:
                            found.add("cell:number:whole:2^53")
                    elif whole:
                        found.add("cell:number:whole:>=1e16")
                    elif "e" in repr(value):
                        found.add("cell:number:fraction:exponent")
                    else:
                        found.add("cell:number:fraction")
                    if value < 0:
                        found.add("cell:number:negative")
                    if isinstance(cell[1], float) and whole:
                        found.add("cell:number:whole-as-float")
                    if cell[2]:
                        found.add("cell:number:formatted")
                elif kind == "b":
                    found.add("cell:bool")
                elif kind == "d":
                    found.add("cell:date:midnight" if cell[1].endswith("00:00:00") else "cell:date:with-time")
                    if cell[1] >= "9000":
                        found.add("cell:date:year>=9000")
                    if cell[1] < "1901":
                        found.add("cell:date:1900")
                elif kind == "t":
                    found.add("cell:time:midnight" if cell[1] == "00:00:00" else "cell:time")
                elif kind == "k":
                    found.add("cell:formatted-blank")
                else:
                    found.add("cell:unwritten")
        if len(lengths) > 1:
            found.add("rows:ragged")
    return sorted(found)


def check_workbook(sub, case):
    sheets = case["sheets"]
    options = case.get("options") or {}
    count = len(sheets)
    boxes = [enc_xlsx.bounding_box(rows) for rows in sheets]
    nonstring = any(enc_xlsx.kind_of(cell) in ("n", "b", "d", "t") for rows in sheets for row in rows for cell in row)
    classes = ["workbooks", "sheets:%d" % count] + _cell_classes(sheets)
    classes += ["option:" + name for name in ("inline", "date_1904", "visibility", "relocate") if options.get(name)]
    if options.get("names"):
        classes.append("option:names")
    folder = reused_dir("c16")
    evals = 0
    try:
        path = os.path.join(folder, "case.xlsx")
        try:
            enc_xlsx.write_workbook(path, sheets, options)
        except Exception as error:
            raise HarnessError("cannot produce workbook for case %r: %s: %s" % (case, type(error).__name__, error))
        if case.get("file_name"):
            if os.sep in case["file_name"] or case["file_name"] in (os.curdir, os.pardir):
                raise HarnessError("malformed file name %r" % (case["file_name"],))
            renamed = os.path.join(folder, case["file_name"])
            os.replace(path, renamed)
            path = renamed
            classes.append("file-name:" + os.path.splitext(case["file_name"])[1].lower())
        numbers = list(range(1, count + 1))
        if case.get("beyond"):
            numbers.append(count + 1)
        for number in numbers:
            for via in ("direct", "cid", "cid-narrow"):
                exists = number <= count
                width = boxes[number - 1][1] if exists else 1
                fields = width
                if via == "cid-narrow":
                    # a CID with one field less than the sheet is wide: every row has one item too many, whatever
                    # that item holds
                    if not exists or width < 2:
                        continue
                    fields = width - 1
                evals += 1
                outcome, payload = _read(path, number, "direct" if via == "direct" else "cid", fields)
                where = "sheet %d of %d via %s" % (number, count, via)
                failing = dict(case, failing={"sheet": number, "via": via})
                if outcome == "exception":
                    sub.fail("C16|exception|%s|%s" % (type(payload).__name__, "read" if exists else "missing-sheet"),
                             failing, "reading %s raised %s: %s" % (where, type(payload).__name__, payload))
                    continue
                if not exists:
                    classes.append("read:beyond-last:" + ("error" if outcome == "format-error" else "no-rows"))
                    if outcome == "rows" and payload:
                        sub.fail("C16|sheet-selection", failing,
                                 "%s does not exist but %d rows were delivered, first: %r" % (
                                     where, len(payload), payload[0]))
                    continue
                classes.append("read:sheet-%d:%s" % (number, via))
                if outcome == "format-error":
                    sub.fail("C16|exception|DataFormatError|read", failing,
                             "reading %s of a well-formed workbook failed: %s" % (where, payload))
                    continue
                cid_width = None if via == "direct" else max(fields, 1)
                problems = judge_table(sheets[number - 1], payload, cid_width)
                if not problems:
                    continue
                others = [j + 1 for j in range(count) if j != number - 1
                          and not judge_table(sheets[j], payload, cid_width)]
                if others:
                    sub.fail("C16|sheet-selection", failing,
                             "%s delivered the rows of sheet %d: %r" % (where, others[0], payload[:2]))
                    continue
                for suffix, message in problems:
                    sub.fail("C16|" + suffix, failing, "%s: %s" % (where, message))
        nontrivial = nonstring or count >= 2
        sub.case(json.dumps(case, sort_keys=True), nontrivial, classes, sample=_short(case), evals=evals)
    finally:
        shutil.rmtree(folder, ignore_errors=True)


# -- writer round trip ---------------------------------------------------------------------------------------------
def _padded(rows):
    width = max([len(row) for row in rows] or [0])
    return [list(row) + [""] * (width - len(row)) for row in rows]


def _is_run_markup(text):
    """Text wrapped in the element that OOXML uses for a run of a rich string."""
    return text.startswith("<r>") and text.endswith("</r>")


def check_writer(sub, case):
    rows = case["rows"]
    # A trailing row WITHOUT any cell writes nothing and cannot come back; every cell that is written - also an
    # empty string in the last column or row - is part of the table and must read back ("reads back identically").
    kept = list(rows)
    while kept and len(kept[-1]) == 0:
        kept.pop()
    expected = _padded(kept)
    trailing_empties = enc_xlsx.text_table(rows) != expected
    special = any(ch in cell for row in rows for cell in row for ch in "=<>&\"'\t\n ") or any(
        ord(ch) > 127 for row in rows for cell in row for ch in cell)
    ragged = len(set(len(row) for row in rows)) > 1
    classes = ["writer:tables", "writer:rows:%d" % min(len(rows), 4)]
    classes += ["writer:ragged"] if ragged else []
    classes += ["writer:special-characters"] if special else []
    classes += ["writer:with-empty-cells"] if any(cell == "" for row in rows for cell in row) else []
    classes += ["writer:trailing-empty-cells"] if trailing_empties else []
    folder = reused_dir("c16")
    try:
        path = os.path.join(folder, case.get("name") or "written.xlsx")
        classes.append("writer:name:%s" % ("plain" if not case.get("name") else "special"))
        try:
            writer = rowio.XlsxRowWriter(path)
            split = case.get("split")
            if split is not None and rows:
                # the table arrives in several calls: |split| rows one by one, the others at once (before or after)
                k = min(abs(split), len(rows))
                if split > 0:
                    for row in rows[:k]:
                        writer.write_row(row)
                    writer.write_rows(rows[k:])
                else:
                    writer.write_rows(rows[:len(rows) - k])
                    for row in rows[len(rows) - k:]:
                        writer.write_row(row)
            elif case.get("row_by_row"):
                for row in rows:
                    writer.write_row(row)
            else:
                writer.write_rows(rows)
            writer.close()
            actual = list(rowio.excel_rows(path, 1))
        except Exception as error:
            sub.fail("C16|exception|%s|writer-%s" % (
                type(error).__name__, "write_row" if case.get("row_by_row") else ("mixed" if case.get("split") else "write_rows")), case,
                "writing %r with XlsxRowWriter and reading it back raised %s: %s" % (
                    rows, type(error).__name__, error))
            return
        if actual != expected:
            signature = "C16|writer-roundtrip"
            if len(actual) == len(expected) and all(len(a) == len(e) for a, e in zip(actual, expected)):
                changed = [e for arow, erow in zip(actual, expected) for a, e in zip(arow, erow) if a != e]
                if changed and all(_is_run_markup(cell) for cell in changed):
                    signature = "C16|writer-roundtrip|only-cells-in-run-markup"
            sub.fail(signature, case, "table %r written with XlsxRowWriter reads back as %r%s" % (
                expected, actual, _xlrd_view(path)))
        sub.case(json.dumps(case, sort_keys=True), ragged or special, classes,
                 sample={"kind": "writer", "rows": [[cell if len(cell) <= 40 else "%s... (%d characters)" % (
                     cell[:12], len(cell)) for cell in row] for row in rows[:3]]})
    finally:
        shutil.rmtree(folder, ignore_errors=True)


def _xlrd_view(path):
    """What xlrd itself sees in the file (diagnosis only: tells writer and reader apart)."""
    try:
        import xlrd

        with open(os.devnull, "w") as devnull:
            sheet = xlrd.open_workbook(path, logfile=devnull).sheet_by_index(0)
        held = [[sheet.cell(y, x).value for x in range(sheet.ncols)] for y in range(sheet.nrows)]
        return "; the file holds %r" % held
    except Exception as error:
        return "; (xlrd cannot show the file: %s)" % error


# -- bundled fixtures (old binary format) ------------------------------------------------------------------------------
def _serial_text(serial, datemode):
    """Own conversion of an Excel serial number (1900 system) to the documented text; None = not judged."""
    if datemode != 0 or serial < 0:
        return None
    days = int(serial)
    seconds = int(round((serial - days) * 86400.0))
    if seconds == 86400:
        days += 1
        seconds = 0
    clock = "%02d:%02d:%02d" % (seconds // 3600, seconds // 60 % 60, seconds % 60)
    if days == 0:
        return clock
    if days < 61:
        return None
    return "%s %s" % ((datetime.date(1899, 12, 30) + datetime.timedelta(days=days)).isoformat(), clock)


def check_fixture(sub, case):
    import xlrd

    path = os.path.join(repo.REPO, case["path"])
    if not os.path.exists(path):
        sub.case(None, False, ["fixture:missing"], evals=0)
        return
    try:
        with open(os.devnull, "w") as devnull:
            book = xlrd.open_workbook(path, logfile=devnull)
        sheet_count = book.nsheets
    except Exception:
        book = None
        sheet_count = 1
    kind = "xlsx" if path.endswith("x") else "xls"
    for number in range(1, sheet_count + 1):
        failing = dict(case, failing={"sheet": number})
        try:
            actual = list(rowio.excel_rows(path, number))
        except errors.DataFormatError:
            sub.case(None, False, ["fixture:%s:format-error" % kind])
            continue
        except Exception as error:
            sub.fail("C16|exception|%s|fixture" % type(error).__name__, failing,
                     "reading sheet %d of %s raised %s: %s" % (number, case["path"], type(error).__name__, error))
            continue
        widths = sorted(set(len(row) for row in actual))
        if len(widths) > 1:
            sub.fail("C16|padding", failing, "sheet %d of %s has rows of widths %r" % (number, case["path"], widths))
            continue
        classes = ["fixture:%s:sheet-%d" % (kind, min(number, 3))]
        if book is not None:
            sheet = book.sheet_by_index(number - 1)
            if (len(actual), widths[0] if widths else 0) != (sheet.nrows, sheet.ncols if sheet.nrows else 0):
                matching = [j + 1 for j in range(sheet_count)
                            if j != number - 1 and book.sheet_by_index(j).nrows == len(actual)
                            and (not actual or book.sheet_by_index(j).ncols == widths[0])]
                sub.fail("C16|sheet-selection" if matching else "C16|dimension", failing,
                         "sheet %d of %s has %d rows x %d columns, read were %d rows of widths %r" % (
                             number, case["path"], sheet.nrows, sheet.ncols, len(actual), widths))
                continue
            for y in range(sheet.nrows):
                for x in range(sheet.ncols):
                    cell = sheet.cell(y, x)
                    text = actual[y][x]
                    spec = None
                    if cell.ctype == xlrd.XL_CELL_TEXT:
                        spec = ["s", cell.value]
                    elif cell.ctype == xlrd.XL_CELL_NUMBER:
                        verdict = judge_number(float(cell.value), text)
                        if verdict is not None:
                            sub.fail("C16|render|number", failing, "%s sheet %d: number %r read as %r: %s" % (
                                case["path"], number, cell.value, text, verdict))
                        classes.append("fixture:cell:number")
                        continue
                    elif cell.ctype == xlrd.XL_CELL_BOOLEAN:
                        spec = ["b", bool(cell.value)]
                    elif cell.ctype == xlrd.XL_CELL_DATE:
                        expected = _serial_text(cell.value, book.datemode)
                        if expected is None:
                            continue
                        spec = ["d" if " " in expected else "t", expected, 0]
                    elif cell.ctype in (xlrd.XL_CELL_EMPTY, xlrd.XL_CELL_BLANK):
                        spec = None
                    else:
                        classes.append("fixture:cell:not-judged")
                        continue
                    classes.append("fixture:cell:%s" % enc_xlsx.kind_of(spec))
                    verdict = judge_cell(spec, text)
                    if verdict is not None:
                        sub.fail("C16|render|" + verdict[0], failing, "%s sheet %d row %d column %d: %r read as %r: %s"
                                 % (case["path"], number, y + 1, x + 1, cell.value, text, verdict[1]))
        sub.case("%s#%d" % (case["path"], number), number >= 2 or kind == "xls", classes,
                 sample={"kind": "fixture", "path": case["path"], "sheet": number, "rows": len(actual)})


def _fixture_cases():
    base = os.path.join(repo.REPO, "tests", "data")
    paths = glob.glob(os.path.join(base, "**", "*.xls"), recursive=True)
    paths += glob.glob(os.path.join(base, "**", "*.xlsx"), recursive=True)
    return [{"kind": "fixture", "path": os.path.relpath(path, repo.REPO)} for path in sorted(paths)]


# -- generators ----------------------------------------------------------------------------------------------------
SPECIAL_STRINGS = [
    "=1+1", "=SUM(A1:A2)", "=", "1.0", "12.0", "x.0", ".0", "-3.0", "1e+16", "TRUE", "FALSE", "0", "1", "007",
    "2020-01-01 00:00:00", "12:34:56", " ", "  a  ", "a\nb", "\tx", "ä€中\U0001F600", "'quoted", "<&>\"'",
    "_x0041_", "#N/A", "1,5", "",
    # texts spreadsheet libraries like to interpret: links, mail addresses, formulas in disguise, dates, percentages
    "http://example.com/a?b=c", "https://example.com", "ftp://example.com/x", "mailto:bob@example.com", "mailto:",
    "bob@example.com", "internal:Sheet1!A1", "external:other.xlsx", "+1", "-1", "@SUM(1)", "1/2", "50%", "1E5",
    "01.02.2020", "{=A1}", "  ", "\u200b",
    # texts that look like the markup the file itself is made of
    "<t>x</t>", "<si><t>x</t></si>", "<r>", "x<r>y</r>", "&amp;", "&#65;",
    "_x000D_", "a_x005F_b", "<![CDATA[x]]>", "<?xml?>", "<!--x-->",
]
# Texts wrapped in the element of a rich-string run.  Only for the writer round trip: the workbook encoder of this
# harness is built on XlsxWriter, which copies such texts into the file as markup instead of escaping them, so it
# cannot produce a file that holds them as text.
# line breaks the way other systems write them (for the writer round trip; the encoder of this harness keeps them too)
CARRIAGE_RETURN_STRINGS = ["a\r\nb", "\r", "x\r\n", "\r\n", "a\rb", "\n\r", "a\r\n\r\nb"]
RUN_MARKUP_STRINGS = ["<r>x</r>", "<r><t>x</t></r>", "<r></r>", "<r><t>a</t></r><r><t>b</t></r>"]
ALPHABET = "ab Z09.=-+<>&\"'äß€中\t\n"
_BOUNDARY_WHOLES = sorted(set(
    sign * (base ** power + delta)
    for sign in (1, -1) for base, powers in ((2, range(0, 54)), (10, range(0, 16))) for power in powers
    for delta in (-1, 0, 1) if abs(base ** power + delta) <= enc_xlsx.MAX_WHOLE
))
_SPECIAL_FLOATS = [
    0.1, 0.5, 1.5, -2.25, 1e16, -1e16, 1e22, 1.5e300, 5e-324, 1e-5, 1e-7, -0.0, 2.0 ** 53 + 2, 2.0 ** 63, 1e15,
    9999999999999998.0, 0.30000000000000004, 123456.789, 1e21, 12345678901234567890.0, 1.7976931348623157e308,
    2.2250738585072014e-308, 1 / 3.0, 100.0, 1e100,
]
_FIRST_DAY = datetime.date(1900, 3, 1).toordinal()
_LAST_DAY = datetime.date(9999, 12, 31).toordinal()
_FIRST_DAY_1904 = datetime.date(1904, 1, 2).toordinal()
_SPECIAL_SECONDS = [0, 0, 1, 59, 60, 3599, 3600, 43200, 86399, 86398]


def _clock(seconds):
    return "%02d:%02d:%02d" % (seconds // 3600, seconds // 60 % 60, seconds % 60)


_MILLISECONDS = st.sampled_from([1, 250, 499, 500, 501, 789, 999])


def _seconds():
    return st.one_of(st.sampled_from(_SPECIAL_SECONDS), st.integers(0, 86399))


def _whole():
    return st.one_of(st.integers(-20, 20), st.sampled_from(_BOUNDARY_WHOLES),
                     st.integers(-enc_xlsx.MAX_WHOLE, enc_xlsx.MAX_WHOLE))


def _float():
    return st.one_of(
        st.sampled_from(_SPECIAL_FLOATS),
        st.floats(allow_nan=False, allow_infinity=False),
        st.floats(min_value=-1e6, max_value=1e6, allow_nan=False),
        st.builds(lambda n, d: n / 10.0 ** d, st.integers(-10 ** 7, 10 ** 7), st.integers(1, 6)),
        st.builds(lambda n, p: float(n) * 10.0 ** p, st.integers(-9999, 9999), st.integers(13, 30)),
        st.builds(float, _whole()),
    ).map(enc_xlsx.normalise_float)


def _cells(first_day):
    number_format = st.one_of(st.just(0), st.just(0), st.integers(0, len(enc_xlsx.NUMBER_FORMATS) - 1))
    day = st.one_of(st.sampled_from([first_day, first_day + 1, _LAST_DAY, _LAST_DAY - 1,
                                     datetime.date(2000, 2, 29).toordinal(), datetime.date(1999, 12, 31).toordinal()]),
                    st.integers(first_day, _LAST_DAY), st.integers(first_day, datetime.date(2100, 1, 1).toordinal()))
    string = st.one_of(st.sampled_from(SPECIAL_STRINGS), st.text(alphabet=ALPHABET, max_size=8))
    valued = st.one_of(
        string.filter(bool).map(lambda text: ["s", text]),
        string.filter(bool).map(lambda text: ["s", text]),
        st.builds(lambda value, f: ["n", value, f], _whole(), number_format),
        st.builds(lambda value, f: ["n", value, f], _float(), number_format),
        st.booleans().map(lambda flag: ["b", flag]),
        st.builds(lambda d, s, f: ["d", "%s %s" % (datetime.date.fromordinal(d).isoformat(), _clock(s)), f],
                  day, _seconds(), st.integers(0, len(enc_xlsx.DATE_FORMATS) - 1)),
        st.builds(lambda s, f: ["t", _clock(s), f], _seconds(), st.integers(0, len(enc_xlsx.TIME_FORMATS) - 1)),
        # moments between two whole seconds (time stamps such as =NOW()), not on the last day / in the last second
        st.builds(lambda d, s, f, ms: ["d", "%s %s" % (datetime.date.fromordinal(d).isoformat(), _clock(s)), f, ms],
                  st.integers(first_day, _LAST_DAY - 1), _seconds(), st.integers(0, len(enc_xlsx.DATE_FORMATS) - 1),
                  _MILLISECONDS),
        st.builds(lambda s, f, ms: ["t", _clock(s), f, ms], st.integers(0, 86398),
                  st.integers(0, len(enc_xlsx.TIME_FORMATS) - 1), _MILLISECONDS),
    )
    unvalued = st.one_of(st.just(None), st.just(["s", ""]),
                         st.integers(1, len(enc_xlsx.NUMBER_FORMATS) - 1).map(lambda f: ["k", f]))
    return valued, st.one_of(valued, valued, valued, unvalued)


def _render_key(rows):
    """Text table a correct reader is expected to deliver (number notation aside); used to tell sheets apart."""
    height, width = enc_xlsx.bounding_box(rows)
    result = []
    for row in rows[:height]:
        texts = []
        for x in range(width):
            cell = row[x] if x < len(row) else None
            kind = enc_xlsx.kind_of(cell)
            if kind in ("e", "k"):
                texts.append("")
            elif kind == "n":
                value = enc_xlsx.number_value(cell)
                texts.append(str(int(value)) if value.is_integer() else repr(value))
            elif kind == "b":
                texts.append("1" if cell[1] else "0")
            else:
                texts.append(cell if isinstance(cell, str) else cell[1])
        result.append(texts)
    return result


def distinguishable(sheets):
    """``sheets`` with a marker row appended to every sheet that would read like an earlier one."""
    result = []
    keys = []
    for index, rows in enumerate(sheets):
        key = _render_key(rows)
        if key in keys:
            rows = [list(row) for row in rows[:len(key)]] + [[["s", "sheet-%d" % (index + 1)]]]
            key = _render_key(rows)
        keys.append(key)
        result.append(rows)
    return result


@st.composite
def workbook_cases(draw):
    date_1904 = draw(st.integers(0, 5)) == 0
    valued, cells = _cells(_FIRST_DAY_1904 if date_1904 else _FIRST_DAY)
    count = draw(st.sampled_from([1, 2, 2, 3, 3]))
    sheets = []
    for _ in range(count):
        if draw(st.integers(0, 11)) == 0:
            # a sheet without any value: no rows at all, or only unwritten / formatted blank cells
            sheets.append(draw(st.sampled_from([[], [[]], [[None, ["k", 2]]], [[], [["s", ""]]]])))
            continue
        lengths = draw(st.lists(st.sampled_from([0, 1, 2, 3, 3, 4, 5, 6]), min_size=1, max_size=6))
        rows = [draw(st.lists(cells, min_size=length, max_size=length)) for length in lengths]
        if enc_xlsx.bounding_box(rows) == (0, 0):
            rows[-1] = rows[-1] + [draw(valued)]
        sheets.append(rows)
    options = {}
    if date_1904:
        options["date_1904"] = True
    if draw(st.integers(0, 3)) == 0:
        options["inline"] = True
    if draw(st.integers(0, 3)) == 0:
        # the worksheet parts lie somewhere else in the package than where most writers put them
        options["relocate"] = True
    if draw(st.integers(0, 3)) == 0:
        options["names"] = ["Tabelle ä %d" % (count - index) for index in range(count)]
    if count >= 2 and draw(st.integers(0, 2)) == 0:
        # some sheets hidden from the user interface; they keep their place in the numbering
        hidden = draw(st.lists(st.integers(0, count - 1), min_size=1, max_size=count - 1, unique=True))
        options["visibility"] = dict((str(index), draw(st.sampled_from(["hidden", "veryHidden"]))) for index in hidden)
    case = {"kind": "workbook", "sheets": distinguishable(sheets), "options": options}
    if draw(st.integers(0, 3)) == 0:
        # what a workbook is called says nothing about what it is (exports are often named .xls whatever they hold)
        case["file_name"] = draw(st.sampled_from(WORKBOOK_FILE_NAMES))
    if count < 3 and draw(st.integers(0, 2)) == 0:
        case["beyond"] = True
    return case


WORKBOOK_FILE_NAMES = ["case.xls", "CASE.XLS", "case.xlsm", "case.XLSX", "case", "case.ods", "case.csv", "case.xlsx.bak"]
# characters that mean something in sheet names, sheet references, shells, glob patterns or URLs; a very long name
WRITER_FILE_NAMES = ["export[1].xlsx", "sales 2020:Q1.xlsx", "what now?.xlsx", "'draft'.xlsx", "a*b.xlsx", "x" * 60 + ".xlsx",
                     "\xe4\u20ac \u4e2d.xlsx", "back\\slash.xlsx", "100%.xlsx", "a!b$c.xlsx", "History.xlsx", ".xlsx",
                     "no-suffix", "two.dots.xlsx", "UPPER.XLSX", "#hash&amp;.xlsx"]
LONG_TEXT_LENGTHS = [254, 255, 256, 1023, 8191, 8192, 32765, 32766]  # plus the closing "."


@st.composite
def writer_cases(draw):
    cell = st.one_of(st.sampled_from(SPECIAL_STRINGS + RUN_MARKUP_STRINGS + CARRIAGE_RETURN_STRINGS), st.text(alphabet=ALPHABET, max_size=8),
                     st.just(""))
    rows = draw(st.lists(st.lists(cell, max_size=6), max_size=6))
    if rows and draw(st.integers(0, 2)) > 0:
        # mostly: a non-empty cell in the last row and in the last column of the widest row; otherwise trailing
        # empty cells stay (written explicitly, they must read back)
        filler = draw(st.sampled_from(["x", "=1", "1.0", " ", "ä", "\n"]))
        if not any(rows[-1]):
            rows[-1] = rows[-1][:-1] + [filler] if rows[-1] else [filler]
        widest = max(range(len(rows)), key=lambda y: (len(rows[y]), y))
        if rows[widest][-1] == "":
            rows[widest][-1] = filler
    if rows and any(rows) and draw(st.integers(0, 9)) == 0:
        # one long text, up to the 32767 characters a cell can hold (255 and 8192 are limits of older formats / buffers)
        y = draw(st.sampled_from([y for y, row in enumerate(rows) if row]))
        x = draw(st.integers(0, len(rows[y]) - 1))
        rows[y][x] = draw(st.sampled_from(["x", "\xe4", "<", " "])) * draw(st.sampled_from(LONG_TEXT_LENGTHS)) + "."
    case = {"kind": "writer", "rows": rows, "row_by_row": draw(st.booleans())}
    if draw(st.integers(0, 3)) == 0:
        # what the file is called says nothing about the table in it
        case["name"] = draw(st.sampled_from(WRITER_FILE_NAMES))
    if len(rows) >= 2 and draw(st.integers(0, 2)) == 0:
        case["split"] = draw(st.integers(1, len(rows) - 1)) * draw(st.sampled_from([1, -1]))
    return case


# -- hand-picked regression cases ----------------------------------------------------------------------------------
CORPUS = [
    {"kind": "workbook", "options": {}, "sheets": [[[["s", "one"]]], [[["s", "two"]]]]},
    {"kind": "writer", "rows": [["a"]], "row_by_row": False},
    {"kind": "writer", "rows": [["a", "b"], ["c"]], "row_by_row": True},
    {"kind": "writer", "rows": [["k", "x" * 32767], ["x" * 32766, "\xe4" * 32767]], "row_by_row": False},
    {"kind": "writer", "rows": [["y" * 255, "y" * 256], ["z" * 8192]], "row_by_row": True},
    {"kind": "workbook", "options": {}, "beyond": True, "sheets": [
        [[["s", "one"], ["n", 1, 0]], [["s", "1.0"]]],
        [[["s", "two"]], [], [None, None, ["s", "wide"]]],
    ]},
    {"kind": "workbook", "options": {"names": ["c", "b", "a"]}, "sheets": [
        [[["s", "first"]]], [], [[["n", 3, 0], ["n", 3.5, 2]]],
    ]},
    {"kind": "workbook", "options": {}, "sheets": [[
        [["n", 2 ** 53, 0], ["n", -2 ** 53, 0], ["n", 2 ** 53 - 1, 0], ["n", 999999999999999, 0], ["n", 0, 0]],
        [["n", 1e16, 0], ["n", 1e22, 0], ["n", 1.5e300, 0], ["n", 5e-324, 0], ["n", 1e-05, 0], ["n", 0.1, 0]],
        [["n", 9999999999999998.0, 0], ["n", 1e15, 0], ["n", -0.0, 0], ["n", 1234.5, 4], ["n", 0.25, 3]],
        [["b", True], ["b", False], ["s", "=1+1"], ["s", "5.0"], ["k", 2], ["s", " x "]],
    ]]},
    {"kind": "workbook", "options": {}, "sheets": [[
        [["d", "1900-03-01 00:00:00", 0], ["d", "9999-12-31 23:59:59", 1], ["d", "2000-02-29 12:00:00", 4]],
        [["t", "00:00:00", 0], ["t", "23:59:59", 1], ["t", "00:00:01", 3], ["t", "12:00:00", 4]],
    ]]},
    {"kind": "workbook", "options": {"date_1904": True, "inline": True}, "sheets": [
        [[["s", " inline "]]],
        [[["d", "1904-01-02 00:00:00", 0], ["t", "00:00:00", 0], ["d", "9999-12-31 23:59:59", 5], ["s", "a\nb"]]],
    ]},
    {"kind": "writer", "rows": [["=1+1", "1.0", ""], ["x"], ["", "ä€", " y "]], "row_by_row": False},
    {"kind": "writer", "rows": [], "row_by_row": False},
    # the same stored serial number read in both date systems, one workbook after the other in one process: it
    # denotes dates 1462 days apart (whatever a reader remembers about a serial must not cross workbooks)
    {"kind": "workbook", "options": {}, "sheets": [[[["d", "2020-05-17 13:45:10", 0], ["d", "1999-12-31 00:00:00", 1]]]]},
    {"kind": "workbook", "options": {"date_1904": True}, "sheets": [[[["d", "2024-05-18 13:45:10", 0],
                                                                      ["d", "2004-01-01 00:00:00", 1]]]]},
    {"kind": "workbook", "options": {}, "sheets": [[[["d", "2020-05-17 13:45:10", 0], ["d", "1999-12-31 00:00:00", 1]]]]},
    # a table handed over in several calls: single rows first, the rest at once, and the other way round
    {"kind": "writer", "rows": [["head", "er"], ["a", "b"], ["c", "d"], ["e", "f"]], "split": 1},
    {"kind": "writer", "rows": [["head", "er"], ["a", "b"], ["c", "d"], ["e", "f"]], "split": -1},
]


def _dispatch(sub, case):
    kind = case.get("kind")
    if kind == "workbook":
        check_workbook(sub, case)
    elif kind == "writer":
        check_writer(sub, case)
    elif kind == "fixture":
        check_fixture(sub, case)
    else:
        raise HarnessError("unknown case kind %r" % (kind,))


def run(ctx):
    problems = enc_xlsx.selftest()
    if problems:
        raise HarnessError("xlsx producer self-test failed: " + "; ".join(problems))
    sub = ctx.sub("corpus")
    for case in CORPUS + _fixture_cases():
        local = Sub("corpus")
        _dispatch(local, case)
        sub.merge(local)
    ctx.merge(sub)
    ctx.hyp("workbooks", workbook_cases, check_workbook, ctx.n(3200, 80000))
    ctx.hyp("writer", writer_cases, check_writer, ctx.n(1000, 20000))


def replay(sub, case):
    case = dict(case)
    case.pop("failing", None)
    _dispatch(sub, case)
