"""C07 - header rows are skipped; the validation limit bounds validation, not data."""
import contextlib
import csv
import io
import os
import shutil
import tempfile

from vlib import cidlib, enc_ods, enc_xlsx
from vlib.runner import Sub, norm_message, par_map

import cutplace
from cutplace import applications, errors

PROPERTY_ID = "C07"
RULE = (
    "Complete enumeration, family 'bad': format in {delimited, fixed} (ods and excel/xlsx files, and fixed files "
    "whose records end in a bare CR - declared as CR or Any - read from a StringIO with the default newline setting: a seed-chosen "
    "sample of the same tables in quick, all of them in thorough) x header 0..3 x table of r in 1..6 rows "
    "(id = Integer 100...899, code = Choice aa,bb) that is either all good or has exactly one bad row at every "
    "position 1..r (also inside the header; kinds: id not a number, id outside the range, code not a choice, "
    "a character outside the allowed range, an id that repeats the id of the row before it - rejected by the IsUnique "
    "check only if that row is a data row -, delimited only: a row with too few items, a row without any item - an empty line) x header style {rows that look like data, column titles that the "
    "fields would reject} x validation limit in {None, 0..r+1, 2^31, 2^64} x observers {list(cutplace.rows(on_error='yield')), "
    "cutplace.validate, both also with the CID named by the path of a CID file that is rewritten in place whenever "
    "the header count changes, applications.main with --until N (None: option omitted and also '--until -1')}; a "
    "fresh Cid per run; every CID restricts the allowed characters to printable ASCII and one kind of bad row breaks that. Oracle (own arithmetic, no cutplace): rejection reported iff header < bad row number <= limit "
    "(None = no limit, row numbers count header rows); rows() returns every data row after the header unchanged "
    "(also beyond the limit) with a DataError in place of the reported row; validate raises a DataError iff so; "
    "main exits 1 iff so, else 0 (thorough: r up to 8, and delimited/fixed data also given to the API as a path). "
    "Family 'fault': g in 0..5 good rows followed by a container fault at row g+1 "
    "(delimited: unterminated quote, optionally followed by one more line; fixed: a record that is too short) x "
    "header 0..3 x limit in {None, 0..g+2}, observer cutplace.validate: no limit -> DataFormatError; fault beyond "
    "row header+N -> no error (reading stopped); header < fault row <= N -> DataError; the rest is neutral. "
    "Non-trivial: the bad/fault row lies on a boundary (header, header+1, limit, limit+1; for faults also "
    "header+limit, header+limit+1). Distinct by construction."
    "Limits also 2^31 and 2^64."
    "Bad rows include a row without any item (an empty line)."
)
ASSUMPTIONS = [
    "a fresh Cid is loaded for every run (carry-over between runs is property C08)",
    "the CID declares one row check (IsUnique over id) and no end-of-data check, so a rejection is always the rejection "
    "of one row; a duplicate counts only when its first occurrence is a data row (header rows register nothing)",
    "container faults: only the validate-only API is judged; with header h > 0 and limit N a fault in rows "
    "N+1..h+N is neutral ('stops after N data rows' can count rows from the start or after the header) and so is "
    "a fault inside the header; what rows() and main do with a container fault after the limit is counted, not judged",
    "ods / xlsx files are produced by vlib/enc_ods.py and vlib/enc_xlsx.py (plain text cells)",
]
EXHAUSTIVE = True
EXHAUSTIVE_SCOPE = (
    "delimited and fixed: header 0..3 x r 1..6 x (all good | one bad row at each position 1..r x bad kinds) x "
    "header styles x limit {None, 0..r+1, 2^31, 2^64} x {rows, validate, main}; fault family: header 0..3 x 0..5 good rows "
    "before the fault x limit {None, 0..g+2} x validate"
)

FORMATS = ("delimited", "fixed", "ods", "excel")
KINDS = {"delimited": ("int", "range", "choice", "count", "char", "dup", "none"),
         "fixed": ("int", "range", "choice", "char", "dup"), "fixed-cr": ("int", "choice", "dup"),
         "ods": ("int", "choice", "char", "dup"),
         "excel": ("int", "choice", "dup")}
TITLES = {"delimited": ["id", "code"], "fixed": ["id ", "cd"], "fixed-cr": ["id ", "cd"], "ods": ["id", "code"], "excel": ["id", "code"]}
SUFFIX = {"delimited": ".csv", "fixed": ".txt", "fixed-cr": ".dat", "ods": ".ods", "excel": ".xlsx"}
MAX_ROWS = 6
MAX_HEADER = 3


# -- construction of CIDs, tables and files (no cutplace) --------------------------
def cid_rows(fmt, header):
    rows = [["D", "Format", {"delimited": "Delimited", "fixed": "Fixed", "fixed-cr": "Fixed", "ods": "ODS", "excel": "Excel"}[fmt]],
            ["D", "Header", str(header)]]
    if fmt in ("delimited", "fixed", "fixed-cr"):
        rows.append(["D", "Encoding", "utf-8"])
    if fmt == "fixed":
        rows.append(["D", "Line delimiter", "LF"])
    if fmt == "fixed-cr":
        # records end in a bare carriage return, declared as such or covered by 'Any'
        rows.append(["D", "Line delimiter", "CR" if header % 2 else "Any"])
    # printable ASCII only: bad rows of kind 'char' break this rule (and, as it happens, the rule of their field)
    rows.append(["D", "Allowed characters", "32...126"])
    rows.append(["F", "id", "", "", "3" if fmt in ("fixed", "fixed-cr") else "", "Integer", "100...899"])
    rows.append(["F", "code", "", "", "2" if fmt in ("fixed", "fixed-cr") else "", "Choice", "aa,bb"])
    rows.append(["C", "id is unique", "IsUnique", "id"])
    return rows


def good_row(number):
    return [str(100 + number), "aa" if number % 2 else "bb"]


def bad_row(number, kind):
    row = good_row(number)
    if kind == "int":
        row[0] = "x%02d" % number
    elif kind == "range":
        row[0] = str(950 + number)
    elif kind == "choice":
        row[1] = "zz"
    elif kind == "char":
        row[1] = "a\xe9"
    elif kind == "dup":
        row = good_row(number - 1)  # the id of the row before it (interplay of header / limit with a row check)
    elif kind == "count":
        row = row[:1]
    elif kind == "none":
        row = []  # an empty line: a row without any item
    else:
        raise ValueError(kind)
    return row


def make_table(fmt, header, r, bad, kind, style):
    table = []
    for number in range(1, r + 1):
        if number == bad:
            table.append(bad_row(number, kind))
        elif style == "titles" and number <= header:
            table.append(list(TITLES[fmt]))
        else:
            table.append(good_row(number))
    return table


def render_text(fmt, table):
    if fmt == "delimited":
        return "".join(",".join(row) + "\n" for row in table)
    if fmt == "fixed-cr":
        return "".join("".join(row) + "\r" for row in table)
    assert fmt == "fixed"
    return "".join("".join(row) + "\n" for row in table)


def write_data(fmt, path, table, text=None):
    if fmt in ("delimited", "fixed", "fixed-cr"):
        with open(path, "w", encoding="utf-8", newline="") as f:
            f.write(render_text(fmt, table) if text is None else text)
    elif fmt == "ods":
        enc_ods.write(path, [table])
    else:
        enc_xlsx.write_text_table(path, table)


def write_cid(path, rows):
    with open(path, "w", encoding="utf-8", newline="") as f:
        csv.writer(f, lineterminator="\n").writerows(rows)


# -- oracle -------------------------------------------------------------------------
def _fail(sub, signature, case, message):
    case = dict(case)
    case["observed"] = message
    sub.fail(signature, case, message)


def run_shards(ctx, fn, args_list, size):
    """Like ctx.par, but the case kept for each signature is the smallest one met by any shard."""
    subs = par_map(fn, args_list, ctx.workers)
    met = {}
    for sub in subs:
        for signature, entry in sub.fails.items():
            met.setdefault(signature, []).extend(entry["cases"])
        ctx.merge(sub)
    for signature, cases in met.items():
        entry = ctx.total.fails[signature]
        cases.extend(c for c in entry["cases"] if c not in cases)
        cases.sort(key=size)
        entry["cases"] = cases[:3]
        entry["message"] = cases[0].get("observed", entry["message"])


def case_size(case):
    limit = case.get("limit")
    return (case.get("rows", case.get("good", 0)), case.get("header", 0), 0 if limit is None else 1 + limit,
            case.get("bad") or 0, str(case.get("kind")), str(case.get("style")), case.get("tail", 0))


def is_reported(header, bad, limit, kind=None):
    if kind == "dup":
        # the bad row repeats the id of the row before it: a duplicate only if that row is a data row (header rows are
        # never looked at, so they register no key); it is then validated whenever the later one is
        return bad is not None and header < bad - 1 and (limit is None or bad <= limit)
    return bad is not None and header < bad and (limit is None or bad <= limit)


def zone_of(header, bad, limit):
    if bad is None:
        return "none"
    if bad <= header:
        return "header"
    if limit is None or bad <= limit:
        return "validated"
    return "beyond-limit"


def boundaries(header, pos, limit):
    result = []
    if pos is not None:
        if pos == header:
            result.append("pos=header")
        if pos == header + 1:
            result.append("pos=header+1")
        if limit is not None:
            if pos == limit:
                result.append("pos=limit")
            if pos == limit + 1:
                result.append("pos=limit+1")
    return result


def run_main(argv):
    """Exit code of the command line, run in this process with everything it prints discarded."""
    sink = io.StringIO()
    try:
        with contextlib.redirect_stderr(sink), contextlib.redirect_stdout(sink):
            return applications.main(argv)
    except SystemExit as error:
        return "SystemExit(%r)" % (error.code,)


def until_args(limit, spelling):
    if limit is None:
        return ["--until", "-1"] if spelling == "minus1" else []
    return ["--until", str(limit)]


def observe(sub, case, table, source, cid_path=None):
    """
    One run of one observer, compared with the oracle.  ``source`` is a text (delimited, fixed) or the path of the
    data file; for the observer main it is always a path.
    """
    fmt, header, bad, limit, observer = case["fmt"], case["header"], case["bad"], case["limit"], case["observer"]
    reported = is_reported(header, bad, limit, case.get("kind"))
    zone = zone_of(header, bad, limit)
    # an unexpected rejection is filed under what the table offers to reject: a header row the fields would refuse
    # (column titles, or the bad row inside the header), else the bad row behind the limit, else nothing at all
    if (case.get("style") == "titles" and header > 0) or zone == "header":
        zone_text = "rejectable-header-row"
    elif zone == "beyond-limit":
        zone_text = "bad-row-beyond-limit"
    else:
        zone_text = "only-good-rows-unreported"
    sub.evaluations += 1

    def stream():
        if fmt == "fixed-cr" and not observer.endswith("-path"):
            return io.StringIO(source)  # the default newline setting "\n" translates nothing when reading either
        if fmt in ("delimited", "fixed", "fixed-cr") and not observer.endswith("-path"):
            return io.StringIO(source, newline="")
        return source

    if observer in ("rows", "rows-path", "rows-by-cid-file"):
        cid = cid_path if observer == "rows-by-cid-file" else cidlib.load_cid(cid_rows(fmt, header))
        try:
            out = list(cutplace.rows(cid, stream(), on_error="yield", validate_until=limit))
        except Exception as error:
            _fail(sub, "C07|rows|raised-%s|%s" % (type(error).__name__, fmt), case,
                  "cutplace.rows(on_error='yield', validate_until=%r) raised %s: %s; table %r" % (
                      limit, type(error).__name__, error, table))
            return
        expected = table[header:]
        if len(out) != len(expected):
            what = "header-row-returned" if len(out) > len(expected) else "data-row-missing"
            _fail(sub, "C07|rows|%s|%s" % (what, fmt), case,
                  "header %d, %d rows: expected %d items, got %d: %r" % (
                      header, len(table), len(expected), len(out), out))
            return
        for offset, (item, row) in enumerate(zip(out, expected)):
            number = header + 1 + offset
            if number == bad and reported:
                if not isinstance(item, errors.DataError):
                    _fail(sub, "C07|rows|rejection-missing|%s" % fmt, case,
                          "row %d (%r) must be reported with header %d and limit %r but came back as %r" % (
                              number, row, header, limit, item))
                    return
            elif isinstance(item, Exception):
                which = "bad-row-beyond-limit" if number == bad else "good-row"
                _fail(sub, "C07|rows|unexpected-rejection-%s|%s" % (which, fmt), case,
                      "row %d (%r) must be returned unvalidated/accepted with header %d and limit %r but was "
                      "reported: %s" % (number, row, header, limit, item))
                return
            elif item != row:
                _fail(sub, "C07|rows|row-changed|%s" % fmt, case,
                      "row %d is %r, expected %r (header %d, limit %r)" % (number, item, row, header, limit))
                return
    elif observer in ("validate", "validate-path", "validate-by-cid-file"):
        cid = cid_path if observer == "validate-by-cid-file" else cidlib.load_cid(cid_rows(fmt, header))
        try:
            cutplace.validate(cid, stream(), validate_until=limit)
            raised = None
        except errors.DataError as error:
            raised = error
        except Exception as error:
            _fail(sub, "C07|validate|raised-%s|%s" % (type(error).__name__, fmt), case,
                  "cutplace.validate(validate_until=%r) raised %s: %s; table %r" % (
                      limit, type(error).__name__, error, table))
            return
        if reported and raised is None:
            _fail(sub, "C07|validate|rejection-missing|%s" % fmt, case,
                  "bad row %d (%r), header %d, limit %r: validate must raise but returned" % (
                      bad, table[bad - 1], header, limit))
        elif not reported and raised is not None:
            _fail(sub, "C07|validate|unexpected-rejection-%s|%s" % (zone_text, fmt), case,
                  "bad row %r, header %d, limit %r: validate must pass but raised %s; table %r" % (
                      bad, header, limit, raised, table))
    else:
        assert observer in ("main", "main-1"), observer
        argv = ["cutplace"] + until_args(limit, "minus1" if observer == "main-1" else "omit") + [cid_path, source]
        code = run_main(argv)
        expected_code = 1 if reported else 0
        if code != expected_code:
            suffix = "" if reported else "-" + zone_text
            _fail(sub, "C07|main|exit-%s-expected-%d%s|%s" % (code, expected_code, suffix, fmt), case,
                  "main(%r) returned %s, expected %d (bad row %r, header %d, limit %r); table %r" % (
                      argv[1:-2] + ["CID", "DATA"], code, expected_code, bad, header, limit, table))


# -- family 'bad': enumeration -------------------------------------------------------
def table_specs(fmt, max_rows=MAX_ROWS):
    """(fmt, header, r, bad, kind, style) for every table of the family."""
    specs = []
    for header in range(MAX_HEADER + 1):
        for r in range(1, max_rows + 1):
            for style in ("data", "titles"):
                if style == "titles" and header == 0:
                    continue
                specs.append((fmt, header, r, None, None, style))
                for bad in range(1, r + 1):
                    if style == "titles" and bad <= header:
                        continue  # the header rows already are rows the fields would reject
                    for kind in KINDS[fmt]:
                        specs.append((fmt, header, r, bad, kind, style))
    return specs


BIG_LIMITS = [2 ** 31, 2 ** 64]  # far beyond any row count, and beyond what a C int / Py_ssize_t holds


def limits_for(r):
    return [None] + list(range(0, r + 2)) + BIG_LIMITS


class _Files(object):
    """Temporary files of one worker."""

    def __init__(self):
        self.dir = tempfile.mkdtemp(prefix="c07-")
        self._cids = {}
        self._count = 0

    def cid_path(self, fmt, header):
        """One CID file per format, as a user keeps it: rewritten in place whenever its content has to change (so the
        same path names CIDs with different header counts in the course of a run)."""
        path = os.path.join(self.dir, "cid_%s.csv" % fmt)
        if self._cids.get(fmt) != header:
            write_cid(path, cid_rows(fmt, header))
            self._cids[fmt] = header
        return path

    def data_path(self, fmt):
        self._count += 1
        return os.path.join(self.dir, "data%d%s" % (self._count, SUFFIX[fmt]))

    def close(self):
        shutil.rmtree(self.dir, ignore_errors=True)


def check_table(sub, files, spec, classes, only=None, by_path=False):
    """All limits x observers for one table.  Returns (evaluations, nontrivial)."""
    fmt, header, r, bad, kind, style = spec
    table = make_table(fmt, header, r, bad, kind, style)
    text = render_text(fmt, table) if fmt in ("delimited", "fixed", "fixed-cr") else None
    data_path = files.data_path(fmt)
    write_data(fmt, data_path, table)
    cid_path = files.cid_path(fmt, header)
    evals = nontrivial = 0
    try:
        for limit in limits_for(r):
            observers = ["rows", "validate", "main"] + (["main-1"] if limit is None else [])
            if text is not None:
                # the CID named by its path instead of given as an object, as in the README
                observers += ["rows-by-cid-file", "validate-by-cid-file"]
            if by_path and text is not None:
                observers += ["rows-path", "validate-path"]
            for observer in observers:
                case = {"family": "bad", "fmt": fmt, "header": header, "rows": r, "bad": bad, "kind": kind,
                        "style": style, "limit": limit, "observer": observer}
                if only is not None and not only(case):
                    continue
                local = Sub("x")
                source = text if (text is not None and observer in ("rows", "validate", "rows-by-cid-file",
                                                                     "validate-by-cid-file")) else data_path
                observe(local, case, table, source, cid_path)
                sub.merge(local)
                sub.evaluations -= local.evaluations
                evals += 1
                marks = boundaries(header, bad, limit)
                if marks:
                    nontrivial += 1
                zone = zone_of(header, bad, limit)
                for name in ["bad:zone:" + zone, "bad:observer:" + observer, "bad:fmt:" + fmt,
                             "bad:header:%d" % header, "bad:style:" + style,
                             "bad:limit:" + ("none" if limit is None else "0" if limit == 0 else "n"),
                             "bad:kind:%s" % kind] + ["bad:" + m for m in marks]:
                    classes[name] = classes.get(name, 0) + 1
                if header and limit is not None and bad is not None and limit < bad <= limit + header and bad > header:
                    classes["bad:limit<pos<=limit+header"] = classes.get("bad:limit<pos<=limit+header", 0) + 1
                if local.fails and len(sub.samples) < 2:
                    sub.samples.append(case)
    finally:
        try:
            os.remove(data_path)
        except OSError:
            pass
    return evals, nontrivial


def _bad_shard(args):
    index, count, specs, by_path = args
    sub = Sub("bad")
    files = _Files()
    classes = {}
    evals = nontrivial = 0
    try:
        for number, spec in enumerate(specs):
            if number % count != index:
                continue
            e, n = check_table(sub, files, spec, classes, by_path=by_path)
            evals += e
            nontrivial += n
            if number % 97 == 0 and len(sub.samples) < 3:
                fmt, header, r, bad, kind, style = spec
                sub.samples.append({"family": "bad", "fmt": fmt, "header": header, "rows": r, "bad": bad,
                                    "kind": kind, "style": style, "table": make_table(*spec),
                                    "limits": "None, 0..%d" % (r + 1), "observers": "rows, validate, main"})
    finally:
        files.close()
    sub.bulk(evals, nontrivial, classes)
    return sub


# -- family 'fault': a container fault after the window ---------------------------------
def fault_text(fmt, good, tail):
    table = [good_row(n) for n in range(1, good + 1)]
    text = render_text(fmt, table)
    if fmt == "delimited":
        text += '%d,"a\n' % (100 + good + 1)
        if tail:
            text += render_text(fmt, [good_row(good + 2)])
    else:
        text += "1%d" % ((good + 1) % 10)  # 2 of the 5 characters a record needs, nothing after it
    return text


def fault_expectation(header, pos, limit):
    """'raise' | 'pass' | 'neutral' for cutplace.validate on a container fault in row ``pos``."""
    if pos <= header:
        return "neutral"  # a header row that cannot even be split into a row
    if limit is None:
        return "raise"
    if pos <= limit:
        return "raise"
    if pos > header + limit:
        return "pass"
    return "neutral"  # limit < pos <= header + limit: depends on how 'N data rows' are counted


def observe_fault(sub, case):
    fmt, header, good, tail, limit = case["fmt"], case["header"], case["good"], case["tail"], case["limit"]
    pos = good + 1
    text = fault_text(fmt, good, tail)
    expectation = fault_expectation(header, pos, limit)
    sub.evaluations += 1
    cid = cidlib.load_cid(cid_rows(fmt, header))
    try:
        cutplace.validate(cid, io.StringIO(text, newline=""), validate_until=limit)
        raised = None
    except errors.DataError as error:
        raised = error
    except Exception as error:
        _fail(sub, "C07|validate|fault-raised-%s|%s" % (type(error).__name__, fmt), case,
              "cutplace.validate(validate_until=%r) on %r raised %s: %s" % (limit, text, type(error).__name__, error))
        return expectation, "other"
    outcome = "pass" if raised is None else type(raised).__name__
    if expectation == "pass" and raised is not None:
        _fail(sub, "C07|validate|reads-beyond-limit|%s" % fmt, case,
              "header %d, limit %d: validate must stop after %d data rows (row %d at the latest) but reported the "
              "broken row %d: %s; data %r" % (header, limit, limit, header + limit, pos, raised, text))
    elif expectation == "raise" and raised is None:
        what = "fault-not-reported-without-limit" if limit is None else "fault-inside-limit-not-reported"
        _fail(sub, "C07|validate|%s|%s" % (what, fmt), case,
              "header %d, limit %r: the broken row %d must be reported but validate returned; data %r" % (
                  header, limit, pos, text))
    elif expectation == "raise" and limit is None and not isinstance(raised, errors.DataFormatError):
        _fail(sub, "C07|validate|fault-reported-as-%s|%s" % (type(raised).__name__, fmt), case,
              "the broken row %d must be reported as DataFormatError, got %s: %s; data %r" % (
                  pos, type(raised).__name__, norm_message(raised), text))
    return expectation, outcome


def fault_cases():
    cases = []
    for fmt in ("delimited", "fixed"):
        for header in range(MAX_HEADER + 1):
            for good in range(0, 6):
                for tail in ((0, 1) if fmt == "delimited" else (0,)):
                    for limit in [None] + list(range(0, good + 3)):
                        cases.append({"family": "fault", "fmt": fmt, "header": header, "good": good, "tail": tail,
                                      "limit": limit, "observer": "validate"})
    return cases


def _fault_shard(args):
    index, count, cases = args
    sub = Sub("fault")
    files = _Files()
    classes = {}
    evals = nontrivial = 0
    try:
        for number, case in enumerate(cases):
            if number % count != index:
                continue
            header, pos, limit, fmt = case["header"], case["good"] + 1, case["limit"], case["fmt"]
            local = Sub("x")
            expectation, outcome = observe_fault(local, case)
            sub.merge(local)
            sub.evaluations -= local.evaluations
            evals += 1
            marks = boundaries(header, pos, limit)
            if limit is not None and pos == header + limit:
                marks.append("pos=header+limit")
            if limit is not None and pos == header + limit + 1:
                marks.append("pos=header+limit+1")
            if marks:
                nontrivial += 1
            names = ["fault:expect:" + expectation, "fault:fmt:" + fmt, "fault:%s->%s" % (expectation, outcome)]
            names += ["fault:" + m for m in marks]
            # not judged, only counted: what the command line does with a fault behind the limit
            if limit is not None and pos > header + limit and case["tail"] == 0:
                data_path = files.data_path(fmt)
                write_data(fmt, data_path, None, fault_text(fmt, case["good"], 0))
                code = run_main(["cutplace", "--until", str(limit), files.cid_path(fmt, header), data_path])
                os.remove(data_path)
                names.append("fault:neutral:main-exit-%s-for-fault-behind-limit" % code)
            for name in names:
                classes[name] = classes.get(name, 0) + 1
            if number % 131 == 0 and len(sub.samples) < 2:
                sample = dict(case)
                sample["text"] = fault_text(fmt, case["good"], case["tail"])
                sample["expect"] = expectation
                sub.samples.append(sample)
    finally:
        files.close()
    sub.bulk(evals, nontrivial, classes)
    return sub


# -- entry points ---------------------------------------------------------------------
# -- family 'several-bad': more than one bad row, modes that go on after a rejection -------------------------------
def _several_rows(header, r, bad_positions):
    rows = []
    for number in range(1, r + 1):
        if number in bad_positions:
            rows.append(["not-a-number", "row %d" % number])
        elif number <= header:
            rows.append(["id", "title %d" % number])
        else:
            rows.append([str(number), "row %d" % number])
    return rows


def check_several(sub, case):
    """Tables with two or three bad rows read in 'yield' and 'continue' mode: an earlier rejection must not move the
    validation window (the limit counts rows of the input, not accepted rows)."""
    import io

    from vlib import cidlib

    header, r, bad, limit = case["header"], case["rows"], set(case["bad"]), case["limit"]
    rows = _several_rows(header, r, bad)
    if case.get("blank"):
        # the first bad row is a blank line: the reader delivers a row without any field
        rows[min(bad) - 1] = []
    text = "".join(",".join(row) + "\n" for row in rows)
    cid_rows_ = [["D", "Format", "Delimited"], ["D", "Header", str(header)],
                 ["F", "id", "", "", "", "Integer", "0...99"], ["F", "title", "", "", "", "Text", ""]]
    for mode in ("yield", "continue"):
        cid = cidlib.load_cid(cid_rows_)
        try:
            items = list(cutplace.rows(cid, io.StringIO(text, newline=""), on_error=mode, validate_until=limit))
        except Exception as error:
            _fail(sub, "C07|several-bad|%s|%s" % (mode, type(error).__name__), case,
                  "cutplace.rows(on_error=%r, validate_until=%r) raised %s: %s" % (mode, limit, type(error).__name__, error))
            continue
        sub.evaluations += 1
        expected = []
        for number, row in enumerate(rows, 1):
            if number <= header:
                continue
            reported = number in bad and (limit is None or number <= limit)
            if reported:
                if mode == "yield":
                    expected.append("error")
            else:
                expected.append(row)
        actual = ["error" if isinstance(i, Exception) else i for i in items]
        if actual != expected:
            beyond = [n for n in sorted(bad) if limit is not None and n > limit]
            what = "bad-row-beyond-limit-reported" if beyond and len(actual) != len(expected) or (
                beyond and any(a == "error" and e != "error" for a, e in zip(actual, expected))) else "differs"
            _fail(sub, "C07|several-bad|%s|%s" % (mode, what), case,
                  "header %d, bad rows %s, limit %r, mode %s: delivered %r, expected %r" % (
                      header, sorted(bad), limit, mode, actual, expected))


def _several_cases(max_rows):
    import itertools

    cases = []
    for header in (0, 1, 2):
        for r in range(2, max_rows + 1):
            for count in (2, 3):
                for bad in itertools.combinations(range(1, r + 1), count):
                    for limit in [None] + list(range(0, r + 2)):
                        cases.append({"family": "several-bad", "header": header, "rows": r, "bad": list(bad),
                                      "limit": limit})
                        if count == 2:
                            cases.append({"family": "several-bad", "header": header, "rows": r, "bad": list(bad),
                                          "limit": limit, "blank": True})
    return cases


def _several_shard(args):
    index, count, cases = args
    sub = Sub("several-bad")
    evals = nontrivial = 0
    for case in cases[index::count]:
        before = sub.evaluations
        check_several(sub, case)
        evals += sub.evaluations - before
        sub.evaluations = before
        limit = case["limit"]
        if limit is not None and any(n <= limit for n in case["bad"]) and any(n > limit for n in case["bad"]):
            nontrivial += 1
    sub.bulk(evals, nontrivial, {"several-bad": len(cases[index::count])})
    if index == 0:
        sub.samples.append(cases[len(cases) // 2])
    return sub


def run(ctx):
    several = _several_cases(ctx.n(6, 7))
    ctx.par(_several_shard, [(i, ctx.workers, several) for i in range(ctx.workers)])
    max_rows = ctx.n(MAX_ROWS, MAX_ROWS + 2)  # thorough goes beyond the stated scope (r up to 8)
    specs = table_specs("delimited", max_rows) + table_specs("fixed", max_rows)
    cr_specs = table_specs("fixed-cr", max_rows)
    specs += [s for i, s in enumerate(cr_specs) if (i + ctx.seed) % ctx.n(3, 1) == 0]
    # spreadsheet files: same tables; quick takes every stride-th one, the start depends on the seed
    stride = ctx.n(6, 1)
    for fmt in ("ods", "excel"):
        sheet_specs = table_specs(fmt, max_rows)
        specs += [s for i, s in enumerate(sheet_specs) if (i + ctx.seed) % stride == 0]
    # smallest tables first (the first case recorded for a signature is then a small one); taking every n-th table
    # gives each shard its share of the slow formats
    specs.sort(key=lambda s: (s[2], s[1], s[3] or 0, s[5], str(s[4]), s[0]))
    shards = max(1, ctx.workers * 2)
    by_path = not ctx.quick  # thorough: delimited and fixed data also handed to the API as a path
    run_shards(ctx, _bad_shard, [(i, shards, specs, by_path) for i in range(shards)], case_size)
    cases = fault_cases()
    fault_shards = max(1, min(ctx.workers, 8))
    run_shards(ctx, _fault_shard, [(i, fault_shards, cases) for i in range(fault_shards)], case_size)


def replay(sub, case):
    if case.get("family") == "several-bad":
        check_several(sub, case)
        return
    if case.get("family") == "fault":
        observe_fault(sub, case)
        return
    fmt, header, r, bad, kind, style = (case["fmt"], case["header"], case["rows"], case["bad"], case["kind"],
                                        case["style"])
    files = _Files()
    try:
        if case["observer"].endswith("-by-cid-file") and fmt in ("delimited", "fixed", "fixed-cr"):
            # in the enumeration the CID file at this path declared other header counts before: repeat that history
            for other in range(MAX_HEADER + 1):
                if other != header:
                    try:
                        list(cutplace.rows(files.cid_path(fmt, other), io.StringIO("", newline="")))
                    except Exception:
                        pass
        wanted = (case["limit"], case["observer"])
        check_table(sub, files, (fmt, header, r, bad, kind, style), {},
                    only=lambda c: (c["limit"], c["observer"]) == wanted, by_path=True)
        sub.evaluations += 1
    finally:
        files.close()
