"""C02 - each field type accepts exactly the values its rule describes."""
import io
import itertools
from decimal import Decimal

from hypothesis import strategies as st

from vlib import cidlib, gen_fields, model_fields
from vlib.runner import norm_message

import cutplace
from cutplace import errors

PROPERTY_ID = "C02"
RULE = (
    "Hypothesis: one field declaration per case from the per-type rule grammars (Integer: range rule / length only / "
    "neither / both; Decimal: decimal range or default; Choice/Constant: identifier, quoted and number tokens; "
    "DateTime: layouts over DD MM YYYY YY hh mm ss with literal separators; Pattern: ? * [seq] [!seq]; RegEx: "
    "literals . classes groups | ? * + {m,n} ^ $; Text) x formats {delimited ./, , delimited ,/. , fixed, excel, "
    "ods} x cells generated from the rule and single mutations of them, judged by the reference semantics in "
    "vlib/model_fields.py (three-valued). The field is built directly and through Cid.read; delimited and fixed "
    "fields are additionally read through cutplace.rows(on_error='yield'). Exhaustive: Integer with only a length, "
    "all length declarations over 0..5 x every canonical integer of up to 5 (quick) / 6 (thorough) characters and 12 "
    "longer ones around 2^31, 2^63, 2^64 and 10^30. "
    "Non-trivial case: at least one must-reject cell and one must-accept non-empty cell; distinct by hash of "
    "(format, declaration, cells)."
    "RegEx rules may span lines (line feed, tab, '#' as ordinary characters); Integer cells include float spellings of integers ('17.0', '17.', '17e0')."
    "Text fields may carry something in the rule column (it has no say); an absent length may be a cell of blanks."
)
ASSUMPTIONS = [
    "cells the statement leaves open are neutral: '+5', leading zeros, '1_0', surrounding blanks, non-ASCII digits, "
    "scientific notation, irregular digit grouping, '.' where ',' is the decimal separator, unpadded date numbers, "
    "seconds 60/61, 29 February without a year, white-space runs in date layouts",
    "a value with a carriage return, or with a line feed under a RegEx rule that says '$', is neutral (which line "
    "ends '$' honours is left open); Pattern / Choice / Text values contain no line breaks",
    "third-party behaviour trusted: int(), decimal.Decimal, time.strptime, re, fnmatch",
]
EXHAUSTIVE = True
EXHAUSTIVE_SCOPE = "Integer fields with only a length: all declarations over 0..5 x all canonical integers up to 5/6 characters"


def _native_json(value):
    if isinstance(value, Decimal):
        return "Decimal(%s)" % value
    return repr(value)


@st.composite
def cases(draw, types=gen_fields.TYPES):
    kind = draw(st.sampled_from(gen_fields.FORMATS))
    fmt = gen_fields.format_spec(kind)
    field = draw(gen_fields.fields_of("f", fmt, types))
    cells = gen_fields.cells_for(draw, field, fmt, 6)
    via = draw(st.sampled_from(["direct", "cid", "cid"]))
    return {"fmt": fmt, "field": field, "cells": cells, "via": via}


def check_case(sub, case):
    fmt, field, cells, via = case["fmt"], case["field"], case["cells"], case["via"]
    type_name = field["type"]
    decl = {k: field[k] for k in ("empty", "length", "type", "rule")}
    short = {"fmt": fmt["kind"], "field": decl, "via": via}
    try:
        if via == "direct":
            data_format = cidlib.data_format_for(fmt)
            field_format = cidlib.field_format_for(field, data_format)
            cid = None
        else:
            cid = cidlib.load_cid(cidlib.cid_rows(fmt, [field]))
            field_format = cid.field_formats[0]
    except Exception as error:
        sub.case(None, False, ["construct-failed"])
        sub.fail("C02|construct|%s|%s|%s|%s" % (type_name, fmt["format"], type(error).__name__, norm_message(error)),
                 case, "declaration %r in format %s rejected: %s: %s" % (decl, fmt["kind"], type(error).__name__, error))
        return
    counts = {"accept": 0, "reject": 0, "neutral": 0}
    expectations = []
    for cell in cells:
        expected = model_fields.verdict(field, fmt, cell)
        expectations.append(expected)
        counts[expected[0]] += 1
        sub.evaluations += 1
        sub.cls("%s:%s:%s" % (type_name, fmt["format"], expected[0]))
        if expected[0] == "neutral":
            continue
        try:
            actual = field_format.validated(cell)
            outcome = "accept"
        except errors.FieldValueError:
            outcome = "reject"
        except Exception as error:
            sub.fail("C02|%s|exception|%s" % (type_name, type(error).__name__), dict(case, cells=[cell]),
                     "validated(%r) of %r raised %s: %s" % (cell, decl, type(error).__name__, error))
            continue
        # the verdict is a function of the cell: the same cell validated again right away gets the same one
        try:
            field_format.validated(cell)
            again = "accept"
        except errors.FieldValueError:
            again = "reject"
        except Exception:
            again = "exception"
        if again != outcome:
            sub.fail("C02|%s|verdict-changes-on-repetition" % type_name, dict(case, cells=[cell, cell]),
                     "validated(%r) of %r: first %s, immediately again %s" % (cell, decl, outcome, again))
        if expected[0] == "accept":
            if outcome != "accept":
                sub.fail("C02|%s|rejected-but-must-accept|%s" % (type_name, fmt["format"]), dict(case, cells=[cell]),
                         "cell %r must be accepted by %r (format %s) but was rejected" % (cell, decl, fmt["kind"]))
            elif not model_fields.native_equal(expected[1], actual):
                sub.fail("C02|%s|native|%s" % (type_name, fmt["format"]), dict(case, cells=[cell]),
                         "cell %r under %r returned %s, expected %s" % (
                             cell, decl, _native_json(actual), _native_json(expected[1])))
        elif outcome == "accept":
            sub.fail("C02|%s|accepted-but-must-reject|%s|%s" % (type_name, expected[1], fmt["format"]),
                     dict(case, cells=[cell]),
                     "cell %r must be rejected by %r (%s; format %s) but validated() returned %s" % (
                         cell, decl, expected[1], fmt["kind"], _native_json(actual)))
    # through the reader (one-column table)
    if cid is not None and fmt["format"] in ("delimited", "fixed"):
        _check_reader(sub, case, cid, cells, expectations)
    nontrivial = counts["reject"] >= 1 and any(e[0] == "accept" and c.strip() for e, c in zip(expectations, cells))
    sub.case((fmt["kind"], decl, cells, via), nontrivial, ["type:" + type_name, "format:" + fmt["kind"], "via:" + via],
             sample=dict(short, cells=cells[:6],
                         expected=[e[0] for e in expectations[:6]]), evals=0)


def _check_reader(sub, case, cid, cells, expectations):
    fmt, field = case["fmt"], case["field"]
    usable = []
    if fmt["format"] == "fixed":
        width = field["length_items"][0][0]
        for cell, expected in zip(cells, expectations):
            if len(cell) <= width and "\n" not in cell and "\r" not in cell:
                padded = cell + " " * (width - len(cell))
                usable.append((padded, model_fields.verdict(field, fmt, padded)))
        text = "".join(c + "\n" for c, _ in usable)
    else:
        for cell, expected in zip(cells, expectations):
            if "\n" in cell or "\r" in cell or cell == "":
                continue
            usable.append((cell, expected))
        text = "".join('"' + c.replace('"', '""') + '"\n' for c, _ in usable)
    if not usable:
        return
    try:
        results = list(cutplace.rows(cid, io.StringIO(text, newline=""), on_error="yield"))
    except Exception as error:
        sub.fail("C02|%s|reader-exception|%s|%s" % (field["type"], fmt["format"], type(error).__name__), case,
                 "cutplace.rows raised %s: %s" % (type(error).__name__, error))
        return
    if len(results) != len(usable):
        sub.fail("C02|%s|reader-row-count|%s" % (field["type"], fmt["format"]), case,
                 "%d rows written, %d results" % (len(usable), len(results)))
        return
    for (cell, expected), result in zip(usable, results):
        sub.evaluations += 1
        if expected[0] == "neutral":
            continue
        rejected = isinstance(result, Exception)
        if expected[0] == "accept" and rejected:
            sub.fail("C02|%s|reader-rejected-but-must-accept|%s" % (field["type"], fmt["format"]),
                     dict(case, cells=[cell]), "reader rejected %r: %s" % (cell, result))
        elif expected[0] == "reject" and not rejected:
            sub.fail("C02|%s|reader-accepted-but-must-reject|%s|%s" % (field["type"], expected[1], fmt["format"]),
                     dict(case, cells=[cell]), "reader accepted %r" % (cell,))
        elif not rejected and result != [cell]:
            sub.fail("C02|%s|reader-row-changed|%s" % (field["type"], fmt["format"]), dict(case, cells=[cell]),
                     "row %r returned as %r" % ([cell], result))


# -- exhaustive: integer with only a length ---------------------------------------------------------
def _length_declarations():
    decls = []
    for n in range(1, 6):
        decls.append((str(n), [[n, n]]))
    for a in range(0, 6):
        decls.append(("%d..." % a, [[a, None]]))
    for b in range(1, 6):
        decls.append(("...%d" % b, [[None, b]]))
    for a in range(0, 6):
        for b in range(max(a, 1), 6):
            decls.append(("%d...%d" % (a, b), [[a, b]]))
    for a, b, c, d in itertools.product(range(0, 6), repeat=4):
        if max(a, 1) <= b and b + 1 < c <= d:
            decls.append(("%d...%d, %d...%d" % (a, b, c, d), [[a, b], [c, d]]))
    return decls


def _canonical_ints(max_chars):
    for n in range(0, 10 ** max_chars):
        yield n
    for n in range(1, 10 ** (max_chars - 1)):
        yield -n
    # longer ones around the limits of 32 and 64 bit numbers (a length that is open upwards admits them)
    for n in (2 ** 31 - 1, 2 ** 31, -(2 ** 31), -(2 ** 31) - 1, 9999999999, 10 ** 10, 2 ** 63 - 1, 2 ** 63, -(2 ** 63) - 1,
              2 ** 64, 12345678901234567890, 10 ** 30):
        yield n


def _sweep_shard(args):
    from vlib.runner import Sub

    index, count, max_chars = args
    sub = Sub("length-sweep")
    fmt = gen_fields.format_spec("delimited")
    data_format = cidlib.data_format_for(fmt)
    evals = nontrivial = 0
    for number, (text, items) in enumerate(_length_declarations()):
        if number % count != index:
            continue
        field = {"name": "f", "empty": False, "length": text, "length_items": items, "type": "Integer", "rule": "",
                 "model": {"range_items": model_fields.length_range_items(items)}}
        try:
            field_format = cidlib.field_format_for(field, data_format)
        except Exception as error:
            sub.fail("C02|construct|Integer|delimited|%s|%s" % (type(error).__name__, norm_message(error)),
                     {"fmt": fmt, "field": field, "cells": [], "via": "direct"},
                     "length %r rejected: %s" % (text, error))
            continue
        validated = field_format.validated
        for value in _canonical_ints(max_chars):
            cell = str(value)
            fits = any((lo is None or len(cell) >= lo) and (hi is None or len(cell) <= hi) for lo, hi in items)
            try:
                result = validated(cell)
                accepted = True
            except errors.FieldValueError:
                accepted = False
            evals += 1
            if accepted != fits or (accepted and result != value):
                sub.fail("C02|Integer|length-sweep|%s" % ("accepted-but-too-long-or-short" if accepted else
                                                          "rejected-but-fits"),
                         {"fmt": fmt, "field": field, "cells": [cell], "via": "direct"},
                         "Integer with length %r: cell %r %s" % (text, cell, "accepted" if accepted else "rejected"))
            # non-trivial: a boundary text (all nines / power of ten / minus variants)
            if cell.strip("-9") == "" or cell.strip("-").rstrip("0") in ("1", ""):
                nontrivial += 1
        if number % 37 == 0:
            sub.samples.append({"sweep": "Integer length %r x canonical integers up to %d characters" % (text, max_chars)})
    sub.bulk(evals, nontrivial, {"Integer:length-sweep": evals})
    return sub


def run(ctx):
    max_chars = ctx.n(4, 6) if ctx.quick else 6
    ctx.par(_sweep_shard, [(i, ctx.workers * 2, ctx.n(5, 6)) for i in range(ctx.workers * 2)])
    per_type = ctx.n(500, 12000)
    for type_name in gen_fields.TYPES:
        ctx.hyp("type-" + type_name, lambda t=type_name: cases((t,)), check_case, per_type)


def replay(sub, case):
    check_case(sub, case)
