"""C04 - a row is accepted iff all cells and row checks pass; errors name the culprit."""
import shutil
import tempfile

from hypothesis import strategies as st

from vlib import cidlib, gen_tables, model_validio
from vlib.runner import norm_message, reused_dir

import cutplace
from cutplace import errors

PROPERTY_ID = "C04"
RULE = (
    "Hypothesis: CID specs with 1-5 fields of mixed types (per-field pools of cells whose verdict is definite by the "
    "field reference model), optionally IsUnique / DistinctCount checks, header 0-2, in formats delimited (two "
    "separator conventions), fixed, ods and excel (sheet 1 or 2) x tables of 0-8 rows drawn from the pools with bad "
    "cells, short and long rows, rendered as text streams and files (delimited, fixed) or generated ODS / XLSX "
    "files; read with cutplace.rows(on_error='yield'). Oracle: vlib/model_validio.predict - output i is the "
    "unchanged row iff item count, every cell and every row check pass, otherwise an error of the right class whose "
    "location has the 0-based line header+i, the first rejected column, a text starting with the input's base name "
    "and 'R<line+1>', and a message naming the field. Non-trivial: >= 1 rejected row whose culprit is not in column "
    "1 or that lies behind a header or a ragged row; distinct by hash of (CID rows, table, via)."
    "The consumer overwrites every delivered row after copying it; ODS data are stored with runs of equal rows / cells; sources include spooled temporary files (name None); with checks in the CID two readings are set up under one Cid before either is consumed and both are judged."
    "The consumer also moves the locations of every error it is handed. ODS cells may carry comments; delimited tables may hold empty lines."
    "Inputs are also named 'growth 50%', 'rate%s', 'a%(x)s', '{0}'; ODS cells may hold a table of their own."
)
ASSUMPTIONS = [
    "cells come from pools with a definite verdict; a neutral cell taints the rest of the table (not judged)",
    "ODS/XLSX tables keep a non-empty last cell per row (trailing empties cannot be stored); xlsx rows are padded to "
    "the sheet width in the model as the format does",
    "cells contain no line breaks",
]


@st.composite
def cases(draw, kinds=gen_tables.KINDS):
    spec = draw(gen_tables.cid_specs(kinds=kinds))
    rows = draw(gen_tables.tables(spec))
    via = draw(st.sampled_from(["stream", "path", "stream", "path", "file-stream", "fd-stream", "spooled-stream"]))
    if spec["fmt"]["format"] not in ("delimited", "fixed") and via.endswith("-stream"):
        via = "path"
    # what the input is called (it shows up in every error text): also with what format strings are made of
    name = draw(st.sampled_from(["data", "data", "growth 50%", "rate%s", "100%%", "a%(x)s", "{0}", "d\xe4ta"]))
    return {"spec": spec, "rows": rows, "via": via, "name": name}


def load(spec):
    return cidlib.load_cid(cidlib.cid_rows(spec["fmt"], spec["fields"], gen_tables.check_rows(spec)))


def read_all(cid, source, mode="yield", validate_until=None):
    """Items produced and the exception that ended the iteration (or None)."""
    items = []
    ended = None
    undo = []
    try:
        for item in cutplace.rows(cid, source, on_error=mode, validate_until=validate_until):
            if isinstance(item, Exception):
                # an error that was handed over belongs to the caller, its locations included: it moves them (as one
                # does to account for lines cut off in front of the data), which must not show in any later error
                undo.extend(_scribble_on_locations(item))
            if isinstance(item, list):
                # a delivered row belongs to the caller: it keeps a copy here and then scribbles over the original,
                # which must not show in any row delivered later
                items.append(list(item))
                item[:] = ["<overwritten by the consumer>"]
            else:
                items.append(item)
    except Exception as error:  # noqa: the caller judges the type
        ended = error
    for error, attribute, saved in undo:
        setattr(error, attribute, saved)  # what the harness itself looks at later is what was delivered
    return items, ended


def _scribble_on_locations(error):
    import copy

    result = []
    for attribute in ("_location", "_see_also_location"):
        location = getattr(error, attribute, None)
        if location is not None and hasattr(location, "advance_line"):
            result.append((error, attribute, copy.copy(location)))
            location.advance_line(1000)
    return result


def _show(error):
    try:
        return str(error)
    except Exception as failure:
        return "<%s whose text cannot be built: %s>" % (type(error).__name__, failure)


def compare_outcomes(sub, prefix, case, spec, expected, items, base_name, fmt_name):
    """Compare yielded items with predicted outcomes (yield mode). Returns True if fully compared."""
    wanted = [o for o in expected["outcomes"] if o is not None]
    if len(items) != len(wanted):
        if any(o[0] == "neutral" for o in wanted):
            return False
        sub.fail("%s|item-count|%s" % (prefix, fmt_name), case,
                 "%d data rows but %d items yielded" % (len(wanted), len(items)))
        return False
    for outcome, item in zip(wanted, items):
        sub.evaluations += 1
        kind = outcome[0]
        if kind == "neutral":
            return False
        if kind in ("row", "unvalidated"):
            if isinstance(item, Exception):
                sub.fail("%s|rejected-but-must-accept|%s|%s" % (prefix, type(item).__name__, fmt_name), case,
                         "row %r must be accepted but: %s" % (outcome[1], _show(item)))
            elif item != outcome[1]:
                sub.fail("%s|row-changed|%s" % (prefix, fmt_name), case, "row %r came back as %r" % (outcome[1], item))
            continue
        _, cls, line, cell, field, see_also = outcome
        if not isinstance(item, Exception):
            sub.fail("%s|accepted-but-must-reject|%s|%s" % (prefix, cls, fmt_name), case,
                     "row at line %d must be rejected (%s%s) but came back as %r" % (
                         line, cls, "" if field is None else " in field " + field, item))
            continue
        if type(item).__name__ != cls:
            sub.fail("%s|error-class|expected-%s|got-%s|%s" % (prefix, cls, type(item).__name__, fmt_name), case,
                     "line %d: expected %s, got %r" % (line, cls, item))
            continue
        try:
            text = str(item)
        except Exception as error:  # the error cannot even be shown to the user
            sub.fail("%s|error-text-raises|%s|%s" % (prefix, type(error).__name__, fmt_name), case,
                     "str() of the %s for line %d raised %s: %s" % (cls, line, type(error).__name__, error))
            continue
        location = item.location
        if location is None:
            sub.fail("%s|no-location|%s|%s" % (prefix, cls, fmt_name), case, "error without location: %s" % item)
            continue
        if location.line != line:
            sub.fail("%s|wrong-row|%s|%s" % (prefix, cls, fmt_name), case,
                     "error for line %d is located at line %d: %s" % (line, location.line, item))
        if not text.startswith("%s (R%d" % (base_name, line + 1)):
            sub.fail("%s|location-text|%s|%s" % (prefix, cls, fmt_name), case,
                     "error text does not start with %r: %s" % ("%s (R%d" % (base_name, line + 1), text))
        if cell is not None:
            if location.cell != cell:
                sub.fail("%s|wrong-column|%s" % (prefix, fmt_name), case,
                         "first rejected column is %d but the error points at %d: %s" % (cell, location.cell, item))
            if "'%s'" % field not in text:
                sub.fail("%s|field-not-named|%s" % (prefix, fmt_name), case,
                         "error does not name field %r: %s" % (field, text))
        if see_also is not None:
            also = item.see_also_location
            if also is None or also.line != see_also:
                sub.fail("%s|see-also|%s" % (prefix, fmt_name), case,
                         "duplicate of line %d must refer to line %d but refers to %s" % (line, see_also, also))
    return True


def compare_end(sub, prefix, case, expected, ended, fmt_name):
    end = expected["end"]
    if end == "neutral":
        return
    if end == "ok":
        if ended is not None:
            sub.fail("%s|end|unexpected-%s|%s" % (prefix, type(ended).__name__, fmt_name), case,
                     "reading ended with %s: %s" % (type(ended).__name__, ended))
    elif ended is None:
        sub.fail("%s|end|missing-check-error|%s" % (prefix, fmt_name), case,
                 "end-of-data check %r must fail but reading ended normally" % (end[1],))
    elif not isinstance(ended, errors.CheckError):
        sub.fail("%s|end|%s-instead-of-CheckError|%s" % (prefix, type(ended).__name__, fmt_name), case,
                 "end-of-data check %r must fail with CheckError but: %r" % (end[1], ended))


def check_case(sub, case):
    spec, rows, via = case["spec"], case["rows"], case["via"]
    fmt_name = spec["fmt"]["kind"]
    tmpdir = reused_dir("c04")
    try:
        try:
            cid = load(spec)
        except Exception as error:
            sub.fail("C04|cid-load|%s|%s|%s" % (fmt_name, type(error).__name__, norm_message(error)), case,
                     "generated CID rejected: %s: %s" % (type(error).__name__, error))
            return
        source, base_name = gen_tables.write_source(spec, rows, tmpdir, via, name=case.get("name", "data"))
        stored = gen_tables.stored_rows(spec, rows)
        expected = model_validio.predict(spec, stored)
        try:
            items, ended = read_all(cid, source)
        finally:
            if hasattr(source, "close"):
                source.close()
        if ended is not None and not isinstance(ended, errors.CheckError):
            sub.fail("C04|exception|%s|%s" % (type(ended).__name__, fmt_name), case,
                     "reading raised %s: %s" % (type(ended).__name__, ended))
            return
        complete = compare_outcomes(sub, "C04", case, spec, expected, items, base_name, fmt_name)
        if complete:
            compare_end(sub, "C04", case, expected, ended, fmt_name)
        if complete and via in ("stream", "path") and gen_tables.check_rows(spec):
            # two readings of the same data under one Cid object, both set up before the first is consumed: each is
            # a reading of its own
            sources = [gen_tables.write_source(spec, rows, tmpdir, via, name=name) for name in ("first", "second")]
            readings = [cutplace.rows(cid, source, on_error="yield") for source, _ in sources]
            for number, (reading, (source, name)) in enumerate(zip(readings, sources)):
                items, ended = [], None
                try:
                    for item in reading:
                        items.append(item)
                except Exception as error:  # noqa: judged below
                    ended = error
                if ended is not None and not isinstance(ended, errors.CheckError):
                    sub.fail("C04|two-readings|exception|%s|%s" % (type(ended).__name__, fmt_name), case,
                             "reading %d of 2 raised %s: %s" % (number + 1, type(ended).__name__, ended))
                    break
                if compare_outcomes(sub, "C04|two-readings", case, spec, expected, items, name, fmt_name):
                    compare_end(sub, "C04|two-readings", case, expected, ended, fmt_name)
        outcomes = [o for o in expected["outcomes"] if o is not None]
        errors_ = [o for o in outcomes if o[0] == "error"]
        header = spec["fmt"].get("header", 0)
        ragged = any(len(r) != len(spec["fields"]) for r in stored)
        nontrivial = any((o[3] or 0) > 0 for o in errors_) or (bool(errors_) and (header > 0 or ragged))
        classes = ["format:" + fmt_name, "via:" + via, "header:%d" % header, "rows:%d" % min(len(outcomes), 9)]
        for o in errors_:
            classes.append("reason:" + o[1])
            if o[3] is not None:
                classes.append("culprit-column:%d" % o[3])
        if expected["tainted"]:
            classes.append("tainted")
        if expected["end"] not in ("ok", "neutral"):
            classes.append("end:check-error")
        sub.case((cidlib.cid_rows(spec["fmt"], spec["fields"], gen_tables.check_rows(spec)), rows, via), nontrivial,
                 classes, sample={"cid": cidlib.cid_rows(spec["fmt"], spec["fields"], gen_tables.check_rows(spec)),
                                  "rows": rows[:6], "via": via,
                                  "expected": [o if o is None else o[0] for o in expected["outcomes"]][:6]}, evals=0)
    finally:
        shutil.rmtree(tmpdir, ignore_errors=True)


def run(ctx):
    ctx.hyp("text", lambda: cases(("delimited", "delimited-de", "fixed")), check_case, ctx.n(3000, 30000))
    ctx.hyp("sheets", lambda: cases(("excel", "ods")), check_case, ctx.n(1000, 10000))


def replay(sub, case):
    check_case(sub, case)
