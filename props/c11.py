"""C11 - data-format properties mean what the CID says; contradictions are refused.

A complete, enumerated matrix (no sampling).  Every case is a small JSON dict:

    {"part": ..., "via": "direct" | "cid", "format": "Delimited", "props": [[name, value], ...],
     "complete": bool, "expect": "accept" | "refuse" | "neutral", "attrs": {attribute: expected value},
     "label": "<property or rule>|<class>"}

``direct`` runs ``DataFormat(format).set_property(name, value)`` for every entry of ``props`` (and ``validate()`` when
``complete``); ``cid`` runs ``Cid().read(path, rows)`` on ``D`` rows made from ``format`` and ``props`` plus one
field row.  ``expect`` is what the documentation says about the *last* entry of ``props`` (or, when ``complete``, about
the completed format); the entries before it are documented set-up values.  ``attrs`` are compared whenever the case
is accepted.  Whatever the expectation, the only exception that may escape is ``errors.InterfaceError``.
"""
import codecs
import csv

from cutplace import data, errors, interface

from vlib.runner import par_map

PROPERTY_ID = "C11"
RULE = (
    "Complete enumeration, judged both through DataFormat.set_property (+ validate) and through Cid.read on D rows: "
    "(1) item delimiter: every code point of the pool (printable ASCII, tab, LF, VT, FF, CR, 5 non-ASCII letters) x "
    "every documented spelling (literal when non-blank and non-digit, decimal, 0x hex in three forms, quoted in both "
    "quote styles, quoted escapes \\t \\n \\r \\f \\v \\\\ \\\" \\' \\xHH \\uHHHH in both quote styles, symbolic name in "
    "four cases) must give exactly that character; undocumented spellings (padded, u-prefix, blank literal) are "
    "neutral; malformed ones must be refused. (2) every property x every format with one documented value "
    "(applicability table taken from docs/writing-an-icd.rst). (3) every property over its documented values (must be "
    "accepted and stored), clearly foreign values (must be refused) and undocumented-but-plausible values (neutral, "
    "counted only). (4) consistency: every pool delimiter x all 20 quote characters, delimiters x line delimiters, "
    "decimal x thousands separators incl. defaults. (5) defaults of unset properties. Whatever the expectation, only "
    "InterfaceError may escape. A case is non-trivial when it uses a non-literal spelling, must be refused, or is a "
    "consistency pair; all cases are distinct by construction."
    "18 undocumented code points x {decimal, hex, \\u, \\U} must be read alike (all taken as the same character or all refused); an encoding name is refused before and accepted after a codec of that name is registered (fresh process)."
    "A value outside a character property's documented set stays refused when a sibling property holds that value."
)
ASSUMPTIONS = [
    "property names are given to set_property in lower case (its documented calling convention); Cid.read gets any case",
    "escape character backslash, blank/empty/apostrophe thousands separators, padded values, 'none' line delimiter for "
    "fixed data, non-text codecs and the undocumented property 'skip initial space' are neutral (counted, not judged)",
    "applicability is only asserted where the documentation lists the property for the format (must accept) or where "
    "the property is meaningless for it (must refuse); encoding/allowed characters/decimal and thousands separator on "
    "spreadsheet formats and header/decimal/thousands separator on fixed data are neutral",
    "loading a delimited CID whose item delimiter is CR, LF or equal to the escape character is neutral here "
    "(the statement names three contradictions only; C12 judges whether such formats work)",
    "the stored encoding is compared by codecs.lookup(...).name, not by spelling",
]
EXHAUSTIVE = True
EXHAUSTIVE_SCOPE = (
    "111 code points x all documented item delimiter spellings x 2 observation points; 5 formats x 12 properties; "
    "documented/foreign/neutral value lists of all 12 properties; 111 delimiters x 20 quote characters; delimiter x "
    "line delimiter; decimal x thousands separator; defaults of 5 formats"
)

# letters, a currency sign, a CJK character and three characters that are digits for str.isdigit() but not ASCII
# digits (given literally they denote themselves; only 0-9 are read as codes)
NON_ASCII = [0xE4, 0xDF, 0x3A9, 0x20AC, 0x4E2D, 0xB2, 0x663, 0xFF15,
             # characters that Unicode normalisation or case mapping would turn into others (OHM SIGN -> OMEGA, KELVIN
             # SIGN -> K, dotted capital I -> i + combining dot)
             0x2126, 0x212A, 0x130]
POOL = list(range(0x20, 0x7F)) + [9, 10, 11, 12, 13] + NON_ASCII
SYMBOLIC = {13: "cr", 12: "ff", 10: "lf", 9: "tab", 11: "vt"}
NAMED_ESCAPES = {9: "\\t", 10: "\\n", 13: "\\r", 12: "\\f", 11: "\\v", 92: "\\\\", 34: '\\"', 39: "\\'"}
QUOTE_CHARACTERS = list("!\"#$%&'*+-/:;=?\\^_`~")
NAME_CASES = ["Item delimiter", "item delimiter", "ITEM DELIMITER", "Item Delimiter", "iTEM dELIMITER"]

FORMATS = ["delimited", "csv", "fixed", "excel", "ods"]
ALL_PROPERTIES = ["allowed characters", "encoding", "escape character", "header", "item delimiter",
                  "line delimiter", "quote character", "quoting", "sheet", "skip initial space",
                  "decimal separator", "thousands separator"]
# one documented value per property and the attribute it must end up in
CANONICAL = {
    "allowed characters": ("32...128", {"allowed_characters": [[32, 128]]}),
    "encoding": ("UTF-8", {"encoding": "utf-8"}),
    "escape character": ('"', {"escape_character": '"'}),
    "header": ("1", {"header": 1}),
    "item delimiter": (";", {"item_delimiter": ";"}),
    "line delimiter": ("LF", {"line_delimiter": "\n"}),
    "quote character": ("'", {"quote_character": "'"}),
    "quoting": ("all", {"quoting": csv.QUOTE_ALL}),
    "sheet": ("2", {"sheet": 2}),
    "skip initial space": ("true", {}),
    "decimal separator": (".", {"decimal_separator": "."}),
    "thousands separator": (",", {"thousands_separator": ","}),
}
_DELIMITED_ACCEPT = ["allowed characters", "encoding", "escape character", "header", "item delimiter",
                     "line delimiter", "quote character", "quoting", "decimal separator", "thousands separator"]
APPLICABILITY = {
    "delimited": {"accept": _DELIMITED_ACCEPT, "neutral": ["skip initial space"], "refuse": ["sheet"]},
    "csv": {"accept": _DELIMITED_ACCEPT, "neutral": ["skip initial space"], "refuse": ["sheet"]},
    "fixed": {"accept": ["allowed characters", "encoding", "line delimiter"],
              "neutral": ["header", "decimal separator", "thousands separator"],
              "refuse": ["escape character", "item delimiter", "quote character", "quoting", "skip initial space",
                         "sheet"]},
    "excel": {"accept": ["header", "sheet"],
              "neutral": ["encoding", "allowed characters", "decimal separator", "thousands separator"],
              "refuse": ["escape character", "item delimiter", "line delimiter", "quote character", "quoting",
                         "skip initial space"]},
}
APPLICABILITY["ods"] = APPLICABILITY["excel"]


def _cases(word):
    mixed = "".join(c.upper() if i % 2 else c.lower() for i, c in enumerate(word))
    return [word.lower(), word.upper(), word.capitalize(), mixed]


# -- executing and judging one case --------------------------------------------------
def _field_row(format_name):
    if format_name.strip().lower() == "fixed":
        return ["F", "x", "", "", "3"]
    return ["F", "x"]


def execute(case):
    """(stage, error, data_format): stage is None when everything was accepted, otherwise the index of the entry of
    props that raised, "format" or "complete"."""
    props = case["props"]
    if case["via"] == "direct":
        stage = "format"
        data_format = None
        try:
            data_format = data.DataFormat(case["format"])
            for index, (name, value) in enumerate(props):
                stage = index
                data_format.set_property(name, value)
            if case.get("complete"):
                stage = "complete"
                data_format.validate()
        except Exception as error:
            return stage, error, data_format
        return None, None, data_format
    rows = [["D", "Format", case["format"]]]
    rows += [["D", name, value] for name, value in props]
    rows.append(_field_row(case["format"]))
    cid = interface.Cid()
    try:
        cid.read("c11.csv", rows)
    except Exception as error:
        return "cid", error, cid.data_format
    return None, None, cid.data_format


def _actual(data_format, attribute):
    if attribute == "allowed_characters":
        value = data_format.allowed_characters
        return None if value is None or value.items is None else [list(item) for item in value.items]
    if attribute == "encoding":
        return codecs.lookup(data_format.encoding).name
    return getattr(data_format, attribute)


def check_case(sub, case):
    label = case["label"]
    prop, _, cls = label.partition("|")
    expect = case["expect"]
    stage, error, data_format = execute(case)
    outcome = "accepted" if error is None else ("refused" if isinstance(error, errors.InterfaceError) else "crashed")
    sub.cls("%s:%s:%s->%s" % (case["part"], prop, expect, outcome))
    if error is not None and not isinstance(error, errors.InterfaceError):
        # chr() reports a code beyond Unicode as ValueError or, beyond a C int, as OverflowError: one root cause
        kind = "ValueError" if isinstance(error, OverflowError) else type(error).__name__
        sub.fail("C11|refusal-type|%s|%s" % (kind, prop), case,
                 "%s: %s instead of InterfaceError (or acceptance) for format %r, properties %r: %s" % (
                     label, type(error).__name__, case["format"], case["props"], error))
        return
    if error is not None:
        if expect == "accept":
            sub.fail("C11|refused-documented|%s" % label, case,
                     "%s: documented setting refused (format %r, properties %r, via %s): %s" % (
                         label, case["format"], case["props"], case["via"], error))
        return
    if expect == "refuse":
        what = "contradiction-loaded" if case.get("complete") and case["part"] == "consistency" else "accepted-foreign"
        sub.fail("C11|%s|%s" % (what, label), case,
                 "%s: format %r with properties %r was accepted via %s but must be refused with InterfaceError" % (
                     label, case["format"], case["props"], case["via"]))
        return
    for attribute, expected in sorted(case.get("attrs", {}).items()):
        sub.evaluations += 1
        try:
            actual = _actual(data_format, attribute)
        except Exception as error:
            sub.fail("C11|wrong-value|%s|%s" % (label, type(error).__name__), case,
                     "%s: reading %s after acceptance raised %s: %s" % (label, attribute, type(error).__name__, error))
            continue
        if actual != expected or type(actual) is not type(expected):
            what = "default" if case["part"] == "defaults" else "wrong-value"
            sub.fail("C11|%s|%s" % (what, label), case,
                     "%s: format %r, properties %r via %s: %s is %r but must be %r" % (
                         label, case["format"], case["props"], case["via"], attribute, actual, expected))


# -- part 1: item delimiter spellings ------------------------------------------------------
def delimiter_spellings(code):
    """[(kind, text, expect)] for one code point; expect is 'accept' (documented) or 'neutral'."""
    ch = chr(code)
    out = []
    blank = ch.strip() == ""
    if ch not in "0123456789":  # only the ASCII digits are read as (one-digit) character codes
        out.append(("literal", ch, "neutral" if blank else "accept"))
        if not blank:
            out.append(("literal-padded", " " + ch + " ", "neutral"))
    out.append(("decimal", str(code), "accept"))
    out.append(("decimal-padded", " %d " % code, "neutral"))
    out.append(("hex", "0x%x" % code, "accept"))
    out.append(("hex", "0X%X" % code, "accept"))
    out.append(("hex", "0x%04X" % code, "accept"))
    for quote in "\"'":
        if ch != quote and ch != "\\" and (ch.isprintable() or ch == " "):
            out.append(("quoted", quote + ch + quote, "accept"))
            out.append(("quoted-u-prefix", "u" + quote + ch + quote, "neutral"))
        elif ch in "\t\x0b\x0c":
            out.append(("quoted-control", quote + ch + quote, "neutral"))
        if code in NAMED_ESCAPES:
            out.append(("escaped", quote + NAMED_ESCAPES[code] + quote, "accept"))
        if code <= 0xFF:
            out.append(("escaped-x", quote + "\\x%02x" % code + quote, "accept"))
            out.append(("escaped-x", quote + "\\x%02X" % code + quote, "accept"))
        out.append(("escaped-u", quote + "\\u%04x" % code + quote, "accept"))
        out.append(("escaped-u", quote + "\\u%04X" % code + quote, "accept"))
    if code in SYMBOLIC:
        for name in _cases(SYMBOLIC[code]):
            out.append(("symbolic", name, "accept"))
        out.append(("symbolic-padded", " " + SYMBOLIC[code] + " ", "neutral"))
    return out


MALFORMED_DELIMITERS = [
    ("empty", ""), ("empty", "   "), ("two-characters", "ab"), ("two-characters", ",;"), ("two-characters", ",,"),
    ("two-characters", '"ab"'), ("two-characters", "'ab'"), ("two-characters", '",;"'), ("empty-string", '""'),
    ("empty-string", "''"), ("unknown-name", "tabx"), ("unknown-name", "comma"), ("unknown-name", "crlf"),
    ("unknown-name", "space"), ("fraction", "1.5"), ("fraction", "44.0"), ("exponent", "1e3"), ("negative", "-1"),
    ("negative", "-44"), ("negative", "-0x2c"), ("bad-hex", "0x"), ("bad-hex", "0xg"), ("bad-hex", "0x2c2g"),
    ("unterminated", '"a'), ("unterminated", "'a"), ("unterminated", '"\\"'), ("unterminated", "\"a'"),
    ("two-tokens", "1 2"), ("two-tokens", "44 45"), ("two-tokens", '"a" "b"'), ("two-tokens", "tab tab"),
    ("two-tokens", "44,"), ("two-tokens", '"," ,'), ("beyond-unicode", "1114112"), ("beyond-unicode", "0x110000"),
    ("beyond-unicode", "99999999"), ("beyond-unicode", "0xffffffff"), ("beyond-unicode", "123456789012345678901234"),
    ("bracket", "(44)"), ("bracket", "[44]"), ("bracket", "()"),
]
# refused today, but nothing documents them either way
NEUTRAL_DELIMITERS = [("nul", "0"), ("nul", "0x00"), ("nul", '"\\x00"'), ("octal", "0o54"), ("binary", "0b101100"),
                      ("underscore", "4_4"), ("leading-zero", "044"), ("named-unicode", '"\\N{COMMA}"'),
                      ("octal-escape", '"\\054"'), ("long-escape", '"\\U0000002c"'), ("surrogate", "0xD800"),
                      ("triple-quoted", '""","""'), ("raw-prefix", 'r","'), ("bytes-prefix", 'b","')]


def spelling_cases():
    number = 0
    for code in POOL:
        ch = chr(code)
        for kind, text, expect in delimiter_spellings(code):
            number += 1
            attrs = {"item_delimiter": ch} if expect == "accept" else {}
            yield {"part": "spelling", "via": "direct", "format": "delimited", "props": [["item delimiter", text]],
                   "expect": expect, "attrs": attrs, "label": "item delimiter|" + kind, "code": code}
            # through Cid.read the format is completed: keep the other special characters out of the way
            props = []
            load = expect
            if ch == '"':
                props = [["Quote character", "'"], ["Escape character", "\\"]]
                load = "neutral"  # needs the undocumented escape character (or delimiter == escape character)
            elif ch in "\r\n":
                load = "neutral"  # a line break as item delimiter: loading is not promised
            props.append([NAME_CASES[number % len(NAME_CASES)], text])
            yield {"part": "spelling", "via": "cid", "format": ["Delimited", "CSV", "delimited"][number % 3],
                   "props": props, "expect": load, "attrs": attrs, "label": "item delimiter|" + kind, "code": code}
    for via in ("direct", "cid"):
        name = "item delimiter" if via == "direct" else "Item delimiter"
        for cls, text in MALFORMED_DELIMITERS:
            yield {"part": "spelling", "via": via, "format": "delimited", "props": [[name, text]], "expect": "refuse",
                   "attrs": {}, "label": "item delimiter|malformed:" + cls}
        for cls, text in NEUTRAL_DELIMITERS:
            yield {"part": "spelling", "via": via, "format": "delimited", "props": [[name, text]],
                   "expect": "neutral", "attrs": {}, "label": "item delimiter|undocumented:" + cls}


# -- part 2: applicability --------------------------------------------------------------
UNKNOWN_PROPERTIES = ["is valid", "foo", "valid line delimiter texts", "delimiter", "item", "line", "sheets",
                      "headers", "quote", "separator", "item delimiter x"]


def _attribute_names(format_name, table):
    """Names of whatever attributes the running DataFormat object carries, spelled like properties.  They are used
    as INPUTS only: a name that is not a documented property of the format must be refused like any other unknown
    name (an implementation that looks properties up among its attributes tends to take them for properties)."""
    documented = set(table["accept"]) | set(table["neutral"]) | set(table["refuse"]) | {"format"}
    try:
        attributes = vars(data.DataFormat("delimited" if format_name == "csv" else format_name))
    except Exception:
        return []
    names = sorted(set(a.strip("_").replace("_", " ").lower() for a in attributes))
    return [n for n in names if n and n not in documented and n not in UNKNOWN_PROPERTIES]


def applicability_cases():
    for format_name in FORMATS:
        table = APPLICABILITY[format_name]
        for expect in ("accept", "neutral", "refuse"):
            for name in table[expect]:
                value, attrs = CANONICAL[name]
                label = "%s|%s" % (name, "applies:" + format_name if expect != "refuse" else "inapplicable")
                for via in ("direct", "cid"):
                    variants = [name] if via == "direct" else [name.capitalize(), name.upper()]
                    for spelled in variants:
                        yield {"part": "applicability", "via": via,
                               "format": format_name if via == "direct" else format_name.upper(),
                               "props": [[spelled, value]], "expect": expect,
                               "attrs": attrs if expect != "refuse" else {}, "label": label}
        for name in UNKNOWN_PROPERTIES + _attribute_names(format_name, table):
            for via in ("direct", "cid"):
                yield {"part": "applicability", "via": via, "format": format_name,
                       "props": [[name if via == "direct" else name.capitalize(), "1"]], "expect": "refuse",
                       "attrs": {}, "label": "unknown property|" + name}
        # the format itself must be given once, first, and a property needs a name (Cid.read only)
        yield {"part": "applicability", "via": "cid", "format": format_name, "props": [["Format", format_name]],
               "expect": "refuse", "attrs": {}, "label": "format|given-twice"}
        yield {"part": "applicability", "via": "cid", "format": format_name, "props": [["", "1"]],
               "expect": "refuse", "attrs": {}, "label": "unknown property|empty-name"}


# -- part 3: values per property -----------------------------------------------------------
_PUNCTUATION = "!\"#$%&()*+-/:;<=>?@[\\]^`{|}~"
_FOREIGN_SEPARATORS = ([("letter", c) for c in "aZ"] + [("digit", c) for c in "09"]
                       + [("punctuation", c) for c in _PUNCTUATION]
                       + [("two-characters", ".."), ("two-characters", ",,"), ("two-characters", ".,"),
                          ("word", "dot"), ("word", "comma"), ("non-ascii-letter", "\xe4")])
_NEUTRAL_SEPARATORS = [("apostrophe", "'"), ("underscore", "_"), ("no-break-space", "\xa0"),
                       ("narrow-no-break-space", "\u202f"), ("middle-dot", "\xb7"), ("code", "44"), ("code", "0x2c"),
                       ("quoted", '","'), ("padded", " , ")]

TEXT_ENCODINGS = ["ascii", "ASCII", "us-ascii", "cp1252", "CP1252", "windows-1252", "utf-8", "UTF-8", "utf8", "UTF8",
                  "utf_8", "Utf-8", "utf-16", "UTF-16", "utf-16-le", "utf-16-be", "utf-32", "latin-1", "latin1",
                  "Latin-1", "iso-8859-1", "ISO-8859-1", "ISO-8859-15", "iso8859_2", "cp850", "CP850", "cp437",
                  "cp1250", "cp1251", "koi8-r", "mac-roman", "shift_jis", "euc-jp", "big5", "gb2312", "gbk", "utf-7",
                  "utf-8-sig", "cp037", "cp500"]
UNKNOWN_ENCODINGS = [("unknown", "no-such-codec"), ("unknown", "utf-99"), ("unknown", "cp99999"),
                     ("unknown", "latin-99"), ("unknown", "ebcdic-xyz"), ("unknown", "utf8x"), ("unknown", "unicode!"),
                     ("empty", ""), ("non-ascii", "\xfctf-8"), ("long", "x" * 300), ("nul", "utf-8\x00"),
                     ("nul", "a\x00b"), ("nul", "\x00")]
NEUTRAL_ENCODINGS = [("non-text-codec", name) for name in ("hex", "base64", "rot13", "zlib", "bz2", "uu", "quopri")] + [
    ("blank-inside", "utf 8"), ("padded", " utf-8"), ("padded", "utf-8 "), ("special-codec", "undefined"),
    ("special-codec", "idna"), ("special-codec", "punycode"), ("special-codec", "unicode_escape")]


def _is_text_encoding(name):
    try:
        info = codecs.lookup(name)
    except (LookupError, ValueError, TypeError):
        return None
    return bool(getattr(info, "_is_text_encoding", True))


def value_table():
    """property -> list of (class, value, expect, attrs)"""
    table = {}
    quote = [("documented", c, "accept", {"quote_character": c}) for c in QUOTE_CHARACTERS]
    for code in range(0x20, 0x7F):
        c = chr(code)
        if c not in QUOTE_CHARACTERS:
            cls = "letter" if c.isalpha() else "digit" if c.isdigit() else "blank" if c == " " else "punctuation"
            quote.append((cls, c, "refuse", {}))
    quote += [(cls, v, "refuse", {}) for cls, v in [("non-ascii", "\xe4"), ("non-ascii", "€"),
                                                      ("two-characters", "ab"), ("two-characters", "!!"),
                                                      ("two-characters", "'\""), ("word", "quote"), ("tab", "\t")]]
    quote += [(cls, v, "neutral", {}) for cls, v in [("empty", ""), ("doubled", '""'), ("doubled", "''"),
                                                       ("code", "34"), ("code", "0x22"), ("quoted", "'\"'"),
                                                       ("quoted", '"\'"'), ("escaped", '"\\""'), ("padded", ' " ')]]
    table["quote character"] = quote

    escape = [("documented", '"', "accept", {"escape_character": '"'}),
              ("backslash", "\\", "neutral", {})]
    for code in range(0x20, 0x7F):
        c = chr(code)
        if c not in '"\\':
            cls = "letter" if c.isalpha() else "digit" if c.isdigit() else "blank" if c == " " else "punctuation"
            escape.append((cls, c, "refuse", {}))
    escape += [(cls, v, "refuse", {}) for cls, v in [("non-ascii", "\xe4"), ("two-characters", "ab"),
                                                       ("two-characters", "\\\\"), ("two-characters", '""'),
                                                       ("word", "backslash")]]
    escape += [(cls, v, "neutral", {}) for cls, v in [("empty", ""), ("code", "34"), ("code", "0x22"),
                                                        ("quoted", "'\"'"), ("escaped", '"\\""'), ("padded", ' " ')]]
    table["escape character"] = escape

    table["decimal separator"] = (
        [("documented", c, "accept", {"decimal_separator": c}) for c in ".,"]
        + [(cls, v, "refuse", {}) for cls, v in _FOREIGN_SEPARATORS]
        + [(cls, v, "neutral", {}) for cls, v in _NEUTRAL_SEPARATORS + [("blank", " "), ("empty", "")]])
    table["thousands separator"] = (
        [("documented", c, "accept", {"thousands_separator": c}) for c in ",."]
        + [(cls, v, "refuse", {}) for cls, v in _FOREIGN_SEPARATORS]
        + [(cls, v, "neutral", {}) for cls, v in _NEUTRAL_SEPARATORS + [("blank", " "), ("empty", "")]])

    line = []
    for word, expected in (("lf", "\n"), ("cr", "\r"), ("crlf", "\r\n"), ("any", data.ANY)):
        for spelled in _cases(word):
            line.append(("documented", spelled, "accept", {"line_delimiter": expected}))
    line += [(cls, v, "refuse", {}) for cls, v in [
        ("empty", ""), ("unknown-name", "lfcr"), ("unknown-name", "nl"), ("unknown-name", "newline"),
        ("unknown-name", "unix"), ("unknown-name", "windows"), ("unknown-name", "all"), ("unknown-name", "anyy"),
        ("unknown-name", "lff"), ("unknown-name", "l f"), ("unknown-name", "cr lf"), ("unknown-name", "cr+lf"),
        ("unknown-name", "cr,lf")]]
    line += [(cls, v, "neutral", {}) for cls, v in [("padded", " lf"), ("padded", "lf "), ("code", "10"),
                                                      ("code", "0x0a"), ("literal", "\n"), ("literal", "\r\n"),
                                                      ("escaped", '"\\n"')]]
    table["line delimiter"] = line  # 'none' is added per format below

    quoting = []
    for word, expected in (("all", csv.QUOTE_ALL), ("minimal", csv.QUOTE_MINIMAL)):
        for spelled in _cases(word):
            quoting.append(("documented", spelled, "accept", {"quoting": expected}))
    quoting += [(cls, v, "refuse", {}) for cls, v in [
        ("empty", ""), ("unknown-name", "al"), ("unknown-name", "alll"), ("unknown-name", "minimum"),
        ("unknown-name", "min"), ("unknown-name", "always"), ("unknown-name", "yes"), ("unknown-name", "true"),
        ("number", "1"), ("number", "0"), ("two-names", "all minimal"), ("two-names", "all,minimal")]]
    # the csv module knows more quoting modes than the two that are documented: "refuses other values"
    quoting += [(cls, v, "refuse", {}) for cls, v in [("csv-mode", "none"), ("csv-mode", "nonnumeric"),
                                                        ("csv-mode", "NonNumeric"), ("csv-mode", "notnull"),
                                                        ("csv-mode", "strings"), ("csv-mode", "None")]]
    quoting += [(cls, v, "neutral", {}) for cls, v in [("padded", " all"), ("padded", "all ")]]
    table["quoting"] = quoting

    header = [("documented", v, "accept", {"header": int(v)}) for v in ("0", "1", "2", "3", "10", "100", "65536")]
    sheet = [("documented", v, "accept", {"sheet": int(v)}) for v in ("1", "2", "3", "10", "100", "65536")]
    malformed = [("negative", "-1"), ("negative", "-10"), ("non-number", "abc"), ("non-number", "one"),
                 ("non-number", "--1"), ("non-number", "1 2"), ("non-number", "1,5"), ("non-number", "NaN"),
                 ("non-number", "inf"), ("fraction", "1.5"), ("fraction", "0.5"), ("empty", ""), ("empty", " ")]
    lenient = [("padded", " 2 "), ("plus-sign", "+1"), ("underscore", "1_0"), ("leading-zero", "007"),
               ("non-ascii-digit", "٣"), ("hex", "0x10"), ("exponent", "1e1"), ("whole-fraction", "1.0")]
    table["header"] = (header + [(cls, v, "refuse", {}) for cls, v in malformed]
                       + [(cls, v, "neutral", {}) for cls, v in lenient + [("negative-zero", "-0")]])
    table["sheet"] = (sheet + [(cls, v, "refuse", {}) for cls, v in malformed + [("zero", "0")]]
                      + [(cls, v, "neutral", {}) for cls, v in lenient + [("negative-zero", "-0"),
                                                                           ("zero-spelled-long", "00")]])

    encoding = []
    for name in TEXT_ENCODINGS:
        if _is_text_encoding(name):  # "those the runtime knows"
            encoding.append(("known", name, "accept", {"encoding": codecs.lookup(name).name}))
    for cls, name in UNKNOWN_ENCODINGS:
        if _is_text_encoding(name) is None:
            encoding.append((cls, name, "refuse", {}))
    encoding += [(cls, name, "neutral", {}) for cls, name in NEUTRAL_ENCODINGS]
    table["encoding"] = encoding

    table["allowed characters"] = [
        ("documented", "32...128, 1024...1280", "accept", {"allowed_characters": [[32, 128], [1024, 1280]]}),
        ("documented", "0...", "accept", {"allowed_characters": [[0, None]]}),
        ("documented", "32...128", "accept", {"allowed_characters": [[32, 128]]}),
        ("documented", "32:128", "accept", {"allowed_characters": [[32, 128]]}),
        ("documented", '"a"..."z"', "accept", {"allowed_characters": [[97, 122]]}),
        ("documented", "0x20...0x7e", "accept", {"allowed_characters": [[32, 126]]}),
        ("documented", "Tab, 32...", "accept", {}),
        ("reversed", "5...1", "refuse", {}), ("unknown-name", "abc", "refuse", {}),
        ("unknown-name", "x...y", "refuse", {}), ("three-limits", "1...2...3", "refuse", {}),
        ("two-characters", '"ab"', "refuse", {}), ("unterminated", '"a', "refuse", {}),
        ("unterminated", "'a...", "refuse", {}), ("bracket", "(", "refuse", {}), ("bracket", "1...)", "refuse", {}),
        ("fraction", "1.5...2", "refuse", {}),
        ("empty", "", "neutral", {}), ("empty", " ", "neutral", {}), ("empty-item", "1,,2", "neutral", {}),
        ("only-ellipsis", "...", "neutral", {}),
    ]

    table["skip initial space"] = [(cls, v, "neutral", {}) for cls, v in [
        ("bool", "true"), ("bool", "false"), ("bool", "True"), ("bool", "FALSE"), ("other", "maybe"), ("other", ""),
        ("other", "1"), ("other", "yes")]]
    return table


HOME_FORMATS = {
    "quote character": ["delimited"], "escape character": ["delimited"], "decimal separator": ["delimited"],
    "thousands separator": ["delimited"], "line delimiter": ["delimited", "fixed"], "quoting": ["delimited"],
    "header": ["delimited", "excel", "ods"], "sheet": ["excel", "ods"], "encoding": ["delimited", "fixed"],
    "allowed characters": ["delimited", "fixed"], "skip initial space": ["delimited"],
}


def value_cases():
    table = value_table()
    for name in sorted(table):
        for format_name in HOME_FORMATS[name]:
            entries = list(table[name])
            if name == "line delimiter":
                for spelled in _cases("none"):
                    entries.append(("none", spelled, "refuse" if format_name == "delimited" else "neutral", {}))
            for cls, value, expect, attrs in entries:
                label = "%s|%s" % (name, cls if expect == "accept" else ("foreign:" if expect == "refuse"
                                                                           else "undocumented:") + cls)
                yield {"part": "values", "via": "direct", "format": format_name, "props": [[name, value]],
                       "expect": expect, "attrs": attrs, "label": label}
                # completed through Cid.read: keep documented values free of contradictions with the defaults
                setup = []
                if name == "thousands separator" and value == ".":
                    setup = [["Decimal separator", ","], ["Item delimiter", ";"]]
                elif name == "decimal separator" and value == ",":
                    setup = [["Item delimiter", ";"]]
                elif name == "quote character" and value == ",":
                    setup = [["Item delimiter", ";"]]
                yield {"part": "values", "via": "cid", "format": format_name.capitalize(),
                       "props": setup + [[name.capitalize(), value]], "expect": expect, "attrs": attrs,
                       "label": label}
    # the format property itself
    for spelled, expected in [(s, "delimited") for s in _cases("delimited") + _cases("csv")] + [
            (s, w) for w in ("fixed", "excel", "ods") for s in _cases(w)]:
        yield {"part": "values", "via": "cid", "format": spelled, "props": [], "expect": "accept",
               "attrs": {"format": expected}, "label": "format|documented"}
    for expected in ("delimited", "fixed", "excel", "ods"):
        yield {"part": "values", "via": "direct", "format": expected, "props": [], "expect": "accept",
               "attrs": {"format": expected}, "label": "format|documented"}
    yield {"part": "values", "via": "direct", "format": "csv", "props": [], "expect": "accept",
           "attrs": {"format": "delimited"}, "label": "format|documented"}
    for cls, value in [("empty", ""), ("unknown", "xml"), ("unknown", "json"), ("unknown", "delimitedx"),
                       ("unknown", "text"), ("unknown", "xls"), ("unknown", "xlsx"), ("unknown", "calc"),
                       ("unknown", "delimited,fixed")]:
        for via in ("direct", "cid"):
            yield {"part": "values", "via": via, "format": value, "props": [], "expect": "refuse", "attrs": {},
                   "label": "format|foreign:" + cls}
    for cls, value in [("padded", " delimited"), ("padded", "fixed "), ("tsv", "tsv")]:
        yield {"part": "values", "via": "cid", "format": value, "props": [], "expect": "neutral", "attrs": {},
               "label": "format|undocumented:" + cls}


# -- part 4: consistency ---------------------------------------------------------------------
def _spell_for_pair(code, number):
    ch = chr(code)
    if ch.strip() and not ch.isdigit() and number % 3 == 0:
        return ch
    return ("%d" if number % 3 == 1 else "0x%x") % code


def consistency_cases():
    number = 0
    for code in POOL:
        delimiter = chr(code)
        for quote in QUOTE_CHARACTERS:
            number += 1
            if delimiter == quote:
                expect = "refuse"
            elif delimiter in '"\r\n':
                expect = "neutral"  # equals the (default, only documented) escape character / is a line break
            else:
                expect = "accept"
            attrs = {"item_delimiter": delimiter, "quote_character": quote, "escape_character": '"'}
            props = [["item delimiter", _spell_for_pair(code, number)], ["quote character", quote]]
            if number % 2:
                props.append(["escape character", '"'])
            if number % 4 >= 2:
                props.reverse()
            label = "item delimiter = quote character|" + ("equal" if expect == "refuse" else "different")
            for via in ("direct", "cid"):
                yield {"part": "consistency", "via": via, "format": "delimited", "props": props, "complete": True,
                       "expect": expect, "attrs": attrs if expect != "refuse" else {}, "label": label}
    lines = {"LF": "\n", "CR": "\r", "CRLF": "\r\n", "Any": data.ANY}
    for code in (10, 13, 9, 44, 59, 32):
        delimiter = chr(code)
        for line_name in sorted(lines):
            for spelling in (SYMBOLIC.get(code, str(code)), "0x%02x" % code):
                number += 1
                if delimiter == lines[line_name]:
                    expect = "refuse"
                elif delimiter in "\r\n":
                    expect = "neutral"
                else:
                    expect = "accept"
                props = [["item delimiter", spelling], ["line delimiter", line_name]]
                if number % 2:
                    props.reverse()
                label = "item delimiter = line delimiter|" + ("equal" if expect == "refuse" else "different")
                for via in ("direct", "cid"):
                    yield {"part": "consistency", "via": via, "format": "delimited", "props": props,
                           "complete": True, "expect": expect,
                           "attrs": {"item_delimiter": delimiter, "line_delimiter": lines[line_name]}
                           if expect != "refuse" else {}, "label": label}
    for format_name in ("delimited", "fixed"):
        for decimal in (None, ".", ","):
            for thousands in (None, ",", "."):
                for order in (0, 1):
                    props = []
                    if decimal is not None:
                        props.append(["decimal separator", decimal])
                    if thousands is not None:
                        props.append(["thousands separator", thousands])
                    if len(props) < 2 and order:
                        continue
                    if order:
                        props.reverse()
                    equal = (decimal or ".") == (thousands or "")
                    if format_name == "delimited":
                        props = [["item delimiter", ";"]] + props
                        expect = "refuse" if equal else "accept"
                    else:  # whether fixed data has these properties at all is neutral; a contradiction is not
                        expect = "refuse" if equal else "neutral"
                    attrs = {} if equal else {"decimal_separator": decimal or ".",
                                              "thousands_separator": thousands or ""}
                    label = "decimal separator = thousands separator|%s:%s" % (
                        "equal" if equal else "different", format_name)
                    for via in ("direct", "cid"):
                        yield {"part": "consistency", "via": via, "format": format_name, "props": props,
                               "complete": True, "expect": expect, "attrs": attrs, "label": label}


# -- part 5: defaults ---------------------------------------------------------------------------
def default_cases():
    for format_name in FORMATS:
        attrs = {"header": 0}
        if format_name in ("excel", "ods"):
            attrs["sheet"] = 1
        if format_name in ("delimited", "csv"):
            attrs["decimal_separator"] = "."
            attrs["thousands_separator"] = ""
        for attribute, expected in sorted(attrs.items()):
            for other in (None, "encoding"):
                props = [] if other is None else [[other, "utf-8"]]
                if other == "encoding" and format_name in ("excel", "ods"):
                    props = [["header", "2"]] if attribute != "header" else [["sheet", "3"]]
                for via in ("direct", "cid"):
                    yield {"part": "defaults", "via": via, "format": format_name, "props": props, "complete": True,
                           "expect": "accept", "attrs": {attribute: expected},
                           "label": "%s|unset" % attribute.replace("_", " ")}


# -- part 6: a property declared more than once ---------------------------------------------------------------------
def twice_cases():
    """The same property in two rows: what counts is the last one (nothing documents a refusal, and the unchanged
    code reads it so); the completed format is the one the last row alone would give."""
    table = value_table()
    for name in sorted(table):
        documented = [(value, attrs) for cls, value, expect, attrs in table[name] if expect == "accept"]
        if name == "thousands separator":
            documented.append(("", {"thousands_separator": ""}))
        if len(documented) < 2:
            continue
        pairs = []
        for index, (value, attrs) in enumerate(documented):
            pairs.append(((value, attrs), documented[(index + 1) % len(documented)]))
            pairs.append(((value, attrs), documented[(index + 3) % len(documented)]))
        for format_name in HOME_FORMATS[name]:
            for (first, _), (last, attrs) in pairs[:24]:
                if first == last:
                    continue
                label = "%s|declared-twice" % name
                yield {"part": "twice", "via": "direct", "format": format_name,
                       "props": [[name, first], [name, last]], "expect": "accept", "attrs": attrs, "label": label}
                setup = []
                if name == "thousands separator" and last == ".":
                    setup = [["Decimal separator", ","], ["Item delimiter", ";"]]
                elif name == "thousands separator" and last == "" and first == ",":
                    # the first value would contradict this decimal separator; the last one does not
                    setup = [["Item delimiter", ";"]]
                elif name == "decimal separator" and last == ",":
                    setup = [["Item delimiter", ";"]]
                elif name == "quote character" and last == ",":
                    setup = [["Item delimiter", ";"]]
                props = setup + [[name.capitalize(), first], [name.capitalize(), last]]
                if name == "thousands separator" and last == "" and first == ",":
                    props.append(["Decimal separator", ","])
                    attrs = dict(attrs, decimal_separator=",")
                yield {"part": "twice", "via": "cid", "format": format_name.capitalize(), "props": props,
                       "expect": "accept", "attrs": attrs, "label": label}
    # the digit 9 as item delimiter, then the code 9 (tab): a value is what its spelling says, whatever was there before
    for first, last, expected in (('"9"', "9", "\t"), ("57", "9", "\t"), ('"4"', "44", ","), ("52", "52", "4")):
        for via in ("direct", "cid"):
            yield {"part": "twice", "via": via, "format": "delimited" if via == "direct" else "Delimited",
                   "props": [["item delimiter" if via == "direct" else "Item delimiter", first],
                             ["item delimiter" if via == "direct" else "Item delimiter", last]],
                   "expect": "accept", "attrs": {"item_delimiter": expected}, "label": "item delimiter|declared-twice"}


def context_cases():
    """A value that is not in the documented set of a character property stays refused when ANOTHER property of the
    same format holds that very value (the sets do not depend on each other)."""
    table = value_table()
    names = ("escape character", "quote character", "decimal separator", "thousands separator")
    for name in names:
        refused = sorted(set(value for cls, value, expect, attrs in table[name] if expect == "refuse" and len(value) == 1))
        for other in names + ("item delimiter",):
            if other == name:
                continue
            taken = set(value for cls, value, expect, attrs in table.get(other, []) if expect == "accept")
            if other == "item delimiter":
                taken = set(refused) - set("0123456789 ")
            for value in refused:
                if value in taken:
                    for via in ("direct", "cid"):
                        first = other if via == "direct" else other.capitalize()
                        yield {"part": "context", "via": via, "format": "delimited",
                               "props": [[first, value], [name if via == "direct" else name.capitalize(), value]],
                               "expect": "refuse", "attrs": {}, "label": "%s|foreign-value-held-by-%s" % (name, other)}


def all_cases():
    for producer in (spelling_cases, applicability_cases, value_cases, consistency_cases, default_cases, twice_cases,
                     context_cases):
        for case in producer():
            yield case


def _nontrivial(case):
    if case["expect"] == "refuse" or case["part"] == "consistency":
        return True
    if case["part"] == "spelling":
        return not case["label"].endswith("|literal")
    return False


def _shard(args):
    from vlib.runner import Sub

    index, count = args
    sub = Sub("matrix")
    evals = 0
    nontrivial = 0
    for number, case in enumerate(all_cases()):
        if number % count != index:
            continue
        check_case(sub, case)
        evals += 1
        if _nontrivial(case):
            nontrivial += 1
        if number % 1009 == 0 and len(sub.samples) < 2:
            sub.samples.append(case)
    sub.bulk(evals, nontrivial)
    return sub


# thorough tier: more code points (letters and symbols only: none of them is white space, a digit or a control
# character, for which the documented spellings differ)
THOROUGH_EXTRA = (list(range(0xC0, 0x100)) + list(range(0x391, 0x3AA)) + list(range(0x410, 0x450))
                  + list(range(0x4E00, 0x4E20)) + [0x2026, 0x20AC, 0x2122, 0xFFFD])  # BMP only: \\uHHHH is the documented escape


# -- spellings of one character agree, whatever the character ------------------------------------------------------
# code points nobody documents as delimiters one way or the other (controls, non-characters, a private-use and a
# supplementary code point, format characters, the surrogate range): whether they are taken or refused is left open,
# but a code written as decimal number, as hex number and as \u / \U escape is the same character every time
AGREEMENT_CODES = [1, 0x1F, 0x7F, 0x85, 0xAD, 0xD7FF, 0xD800, 0xDBFF, 0xDC00, 0xDFFF, 0xE000, 0xFFFE, 0xFFFF, 0x10000,
                   0x10FFFF, 0x200B, 0x2028, 0xFEFF]


def _agreement_spellings(code):
    result = [("decimal", str(code)), ("hex", "0x%x" % code), ("hex", "0X%04X" % code)]
    for quote in "\"'":
        if code <= 0xFFFF:
            result.append(("escaped-u", quote + "\\u%04x" % code + quote))
        result.append(("escaped-U", quote + "\\U%08X" % code + quote))
    return result


def check_agreement(sub, case):
    code, name = case["code"], case["property"]
    outcomes = {}
    for kind, text in _agreement_spellings(code):
        data_format = data.DataFormat("delimited")
        sub.evaluations += 1
        try:
            data_format.set_property(name, text)
            outcomes[(kind, text)] = ("taken", _actual(data_format, name.replace(" ", "_")))
        except errors.InterfaceError:
            outcomes[(kind, text)] = ("refused", None)
        except Exception as error:
            sub.fail("C11|refusal-type|%s|%s" % (type(error).__name__, name), case,
                     "%s := %r: %s instead of InterfaceError (or acceptance): %s" % (
                         name, text, type(error).__name__, error))
            return
    sub.case(("agreement", name, code), True, ["agreement:%s" % name, "agreement:%s" % (
        "taken" if any(o[0] == "taken" for o in outcomes.values()) else "refused")])
    if len(set(outcomes.values())) > 1:
        sub.fail("C11|spellings-disagree|%s" % name, case, "%s: spellings of U+%04X are not read alike: %r" % (
            name, code, sorted((text, outcome) for (_, text), outcome in outcomes.items())))


def _agreement_shard(_):
    from vlib.runner import Sub

    sub = Sub("agreement")
    for code in AGREEMENT_CODES:
        check_agreement(sub, {"part": "agreement", "code": code, "property": "item delimiter"})
    return sub


# -- encodings are those the runtime knows - at the time of asking -----------------------------------------------
def _late_codec_shard(number):
    """An encoding name the runtime does not know is refused; once a codec of that name has been registered (what
    importing a codec package does) the same name is an encoding the runtime knows."""
    from vlib.runner import Sub

    sub = Sub("late-codec")
    name = ["x-verif-late", "verif_codec_2"][number % 2]
    via = ["direct", "cid"][number // 2 % 2]
    case = {"part": "late-codec", "name": name, "via": via}

    def attempt():
        if via == "direct":
            data_format = data.DataFormat("delimited")
            data_format.set_property("encoding", name)
        else:
            cid = interface.Cid()
            cid.read("late-codec", [["D", "Format", "Delimited"], ["D", "Encoding", name], ["F", "a"]])

    def search(wanted):
        if wanted.replace("-", "_") == name.replace("-", "_"):
            found = codecs.lookup("utf-8")
            return codecs.CodecInfo(found.encode, found.decode, found.streamreader, found.streamwriter,
                                    found.incrementalencoder, found.incrementaldecoder, name=name)
        return None

    sub.case(("late-codec", name, via), True, ["late-codec:" + via])
    outcomes = []
    for step in ("unknown", "known"):
        sub.evaluations += 1
        try:
            attempt()
            outcomes.append("accepted")
        except errors.InterfaceError:
            outcomes.append("refused")
        except Exception as error:
            sub.fail("C11|refusal-type|%s|encoding" % type(error).__name__, case, "%s encoding %r: %s: %s" % (
                step, name, type(error).__name__, error))
            return sub
        if step == "unknown":
            codecs.register(search)
    if outcomes != ["refused", "accepted"]:
        sub.fail("C11|encoding|late-codec|%s-then-%s" % tuple(outcomes), case,
                 "encoding %r (%s): %s while the runtime did not know it, %s after a codec of that name was registered" % (
                     name, via, outcomes[0], outcomes[1]))
    return sub


def run(ctx):
    ctx.par(_agreement_shard, [0])
    ctx.par(_late_codec_shard, [0, 1, 2, 3])
    if not ctx.quick:
        for code in THOROUGH_EXTRA:
            if code not in POOL and chr(code).isprintable():
                POOL.append(code)
    shards = ctx.workers
    ctx.par(_shard, [(i, shards) for i in range(shards)])


def replay(sub, case):
    if case.get("part") == "agreement":
        check_agreement(sub, case)
        return
    if case.get("part") == "late-codec":
        # needs a process whose codec registry has never heard of the name
        number = ["x-verif-late", "verif_codec_2"].index(case["name"]) + 2 * ["direct", "cid"].index(case["via"])
        for found in par_map(_late_codec_shard, [number, number]):
            sub.merge(found)
        return
    check_case(sub, case)
    sub.evaluations += 1
