"""C18 - the command line's exit code reflects the validation outcome."""
import contextlib
import csv
import io
import itertools
import os
import shutil
import subprocess
import sys
import tempfile

from vlib import cidlib, enc_ods, enc_xlsx
from vlib import repo as vrepo
from vlib.runner import Sub, norm_message, par_map

import cutplace
from cutplace import applications, errors, interface

PROPERTY_ID = "C18"
RULE = (
    "Complete enumeration through cutplace.applications.main(argv) in this process (SystemExit caught, output "
    "discarded): CID in {valid, rejected (duplicate field name), missing, a directory} as csv plus {valid, rejected, "
    "missing} as .ods and .xlsx x every list of 0..3 data files over the kinds A accepted, F rejected by a field "
    "(last row), "
    "U rejected by IsUnique (last row repeats a key of the same file), S accepted but sharing key values with "
    "every A and S sibling, E accepted by every field but with exactly the number of names for which the CID's count "
    "rule cannot be evaluated (InterfaceError at the end of that file: exit 1), Z a file that holds the header row only, M missing path, D a directory, T a regular file named with a trailing path separator (the k-th occurrence of a kind is its k-th file, so all "
    "orders of a list name the same files) x --until in {absent, -1, 0, 3 (bad row behind the limit), 4 (bad row "
    "inside)}; the data are delimited files with one header row; the enumeration is repeated for ODS and Excel "
    "(xlsx) data files with the valid csv CID; plus 8 unusable argument lists. The CID has an IsUnique and a "
    "DistinctCount check, so keys or counts carried from file to file would show. Oracle: per-file verdict = "
    "cutplace.validate(fresh Cid, path, validate_until) for existing files, 'unreadable' for M, D and T; expected "
    "exit {0} iff CID loads and all files accepted, {1} CID rejected or a file rejected, {3} a named file "
    "unreadable, {1,3} when both, 2 (returned or SystemExit) for unusable arguments, never 4. Metamorphic: all "
    "orders of the same files give the same exit code (also where {1,3} leaves open which one). Thorough (a few in quick): a seed-"
    "chosen sample is repeated with `python -m cutplace.applications` subprocesses and must give the same code. "
    "Non-trivial: >= 2 data files, or an existing data file with --until 3/4. Distinct by construction."
    "A valid CSV CID behind a byte order mark (the API decides whether it loads) and fixed-width data files are part of the matrix."
    "Log levels rotate; one file kind has names that differ only in the kind of line break; the second file of the trailing-separator kind has no name at all."
)
ASSUMPTIONS = [
    "per-file reference verdicts come from cutplace.validate on a fresh Cid (the statement defines the exit code in "
    "terms of the programmatic API); they are cross-checked against the verdict the files were built for and a "
    "difference is recorded in the evidence notes (it belongs to C04/C05/C07), not judged here",
    "a missing path and a directory are 'files that cannot be read' whatever --until says",
    "a missing CID makes the outcome {3} whatever the data files are; a rejected CID together with an unreadable "
    "data file is {1,3}",
    "logging output is irrelevant; only the exit code is observed",
]
EXHAUSTIVE = True
EXHAUSTIVE_SCOPE = (
    "12 CID/data-format variants x all 820 lists of 0..3 files over 9 kinds (every order) x 5 --until settings; "
    "8 unusable argument lists"
)

KINDS = ("A", "F", "U", "S", "E", "Z", "M", "D", "T")
UNREADABLE_KINDS = ("M", "D", "T")
UNTILS = ("absent", "-1", "0", "3", "4")
SUFFIX = {"delimited": ".csv", "ods": ".ods", "excel": ".xlsx", "fixed": ".txt"}
FIXED_WIDTH = 4
# (cid container, cid state, data format)
VARIANTS = [
    ("csv", "valid", "delimited"), ("csv", "rejected", "delimited"), ("csv", "missing", "delimited"),
    ("csv", "directory", "delimited"), ("ods", "valid", "delimited"), ("ods", "missing", "delimited"),
    ("xlsx", "valid", "delimited"), ("xlsx", "missing", "delimited"),
    ("ods", "rejected", "delimited"), ("xlsx", "rejected", "delimited"),
    ("csv", "valid", "ods"), ("csv", "valid", "excel"), ("csv", "valid", "fixed"),
    # a valid CSV CID behind a byte order mark (what some editors and spreadsheet exports put in front): whether that
    # is a CID that loads is for the programmatic API to say, the command line follows it
    ("csv", "bom", "delimited"),
]
HEADER_ROW = ["id", "name"]


# -- files (built without cutplace) -----------------------------------------------------
def cid_table(fmt, rejected=False, lenient=False):
    rows = [["D", "Format", {"delimited": "Delimited", "ods": "ODS", "excel": "Excel", "fixed": "Fixed"}[fmt]],
            ["D", "Header", "1"]]
    if fmt in ("delimited", "fixed"):
        rows.append(["D", "Encoding", "utf-8"])
    length = str(FIXED_WIDTH) if fmt == "fixed" else ""
    rows.append(["F", "id", "", "", length, "Integer", "0...9999"])
    rows.append(["F", "id" if rejected else "name", "", "", length, "Text", ""])
    if not rejected:
        rows.append(["C", "id must be unique", "IsUnique", "id"])
        # at most 4 names; for exactly 5 the rule cannot be evaluated (an error of the CID that only data bring out)
        rows.append(["C", "only a few names", "DistinctCount", "name <= 4 if count != 5 else count < None"])
        # a check that fails on a data set without rows: must not turn "cannot be read" into "rejected"
        # (the CIDs stored as ods / xlsx are lenient there: under them a file without data rows is an accepted file)
        if not lenient:
            rows.append(["C", "at least one id", "DistinctCount", "id >= 1"])
    return rows


def data_table(kind, k):
    """Rows (header first) of the k-th file (k = 1..3) of a kind."""
    if kind == "A":
        rows = [[str(k * 10 + 1), "a%d" % k], [str(k * 10 + 2), "b%d" % k], [str(k * 10 + 3), "c%d" % k]]
    elif kind == "S":  # one key of every A file; the same keys in every S file
        rows = [["11", "s%d" % k], ["21", "t%d" % k], ["31", "u%d" % k]]
    elif kind == "F":
        rows = [[str(k * 10 + 4), "d%d" % k], [str(k * 10 + 5), "e%d" % k], ["x%d" % k, "f%d" % k]]
    elif kind == "U":
        rows = [[str(k * 10 + 6), "g%d" % k], [str(k * 10 + 7), "h%d" % k], [str(k * 10 + 6), "i%d" % k]]
    elif kind == "E":  # five names: the count rule of the CID raises at the end of this file
        rows = [[str(k * 100 + n), "n%d%d" % (k, n)] for n in range(1, 6)]
        # two of the five differ only in the kind of line break they hold
        rows[1][1], rows[3][1] = "n\r\n%d" % k, "n\n%d" % k
    elif kind == "Z":  # nothing but the header row: no row is ever accepted or rejected (the API decides what that means)
        rows = []
    elif kind == "T":  # an accepted file; it is named with a trailing separator, which no regular file can be opened by
        rows = [[str(k * 10 + 8), "t%d" % k], [str(k * 10 + 9), "v%d" % k]]
    else:
        raise ValueError(kind)
    return [list(HEADER_ROW)] + rows


def built_verdict(kind, until):
    """The verdict a file was built for: rows 1 header, 2-4 data, the offending row is row 4."""
    if kind in UNREADABLE_KINDS:
        return "unreadable"
    if kind in ("A", "S"):
        return "accepted"
    if kind in ("E", "Z"):
        return None  # whether the count reaches 5 under a limit / what a file without data rows means is for the API to say
    limit = None if until in ("absent", "-1") else int(until)
    return "rejected" if (limit is None or limit >= 4) else "accepted"


def write_table(path, table):
    if not path.endswith(".csv"):
        # only delimited text holds any kind of line break inside a cell: elsewhere letters stand in for them
        table = [[cell.replace("\r", "R").replace("\n", "N") for cell in row] for row in table]
    if path.endswith(".ods"):
        enc_ods.write(path, [table])
    elif path.endswith(".xlsx"):
        enc_xlsx.write_text_table(path, table)
    elif path.endswith(".txt"):
        with open(path, "w", encoding="utf-8", newline="") as f:
            for row in table:
                f.write("".join(cell.ljust(FIXED_WIDTH) for cell in row) + "\n")
    else:
        with open(path, "w", encoding="utf-8", newline="") as f:
            csv.writer(f, lineterminator="\n").writerows(table)


# how data files are named: what a file is called, where it lies and which characters its name holds say nothing about
# its content ('folders': every file is called data.* in a folder of its own; the others: characters that mean
# something to shells, glob patterns, URLs or option parsers)
NAMINGS = {
    "flat": "{kind}{k}{suffix}",
    "folders": "{kind}{k}/data{suffix}",
    "brackets": "{kind}{k}[1]{suffix}",
    "copy": "{kind} {k} (copy){suffix}",
    "glob": "{kind}{k}*?{suffix}",
    "unicode": "d\xe4t\u20acn_{kind}{k}{suffix}",
    "signs": "#{kind}{k};$x%&=+@{suffix}",
    "nested-same": "same/{kind}{k}/same{suffix}",
    # the file lies next to the folder a symbolic link points to and is named through the link and "..": the operating
    # system resolves the link first, a purely textual normalisation of the name ends up somewhere else
    "symlink-dotdot": "real/{kind}{k}/data{suffix}",
}
NAMING_ORDER = sorted(NAMINGS)


class Files(object):
    """All files of one worker, written lazily."""

    def __init__(self, naming="flat"):
        self.dir = tempfile.mkdtemp(prefix="c18-")
        self._made = set()
        self._verdicts = {}
        self.naming = naming

    def close(self):
        shutil.rmtree(self.dir, ignore_errors=True)

    def cid_path(self, container, state, fmt):
        name = "cid_%s_%s.%s" % (state, fmt, container)
        path = os.path.join(self.dir, name)
        if name not in self._made:
            self._made.add(name)
            if state in ("valid", "rejected"):
                write_table(path, cid_table(fmt, state == "rejected", lenient=container != "csv"))
            elif state == "bom":
                write_table(path, cid_table(fmt))
                with open(path, "rb") as f:
                    content = f.read()
                with open(path, "wb") as f:
                    f.write(b"\xef\xbb\xbf" + content)
            elif state == "directory":
                os.mkdir(path)
        return path

    def judged_state(self, state, path):
        """'valid' or 'rejected' for a CID file whose fate the programmatic API decides; other states as they are."""
        if state != "bom":
            return state
        try:
            interface.Cid(path)
            return "valid"
        except errors.InterfaceError:
            return "rejected"

    def data_path(self, kind, k, fmt):
        name = NAMINGS[self.naming].format(kind=kind, k=k, suffix=SUFFIX[fmt])
        path = os.path.join(self.dir, *name.split("/"))
        if name not in self._made:
            self._made.add(name)
            os.makedirs(os.path.dirname(path), exist_ok=True)
            if kind == "D":
                os.mkdir(path)
            elif kind != "M":
                write_table(path, data_table(kind, k))
        if self.naming == "symlink-dotdot":
            inner = os.path.join(os.path.dirname(path), "inner")
            link = os.path.join(self.dir, "link-%s%d%s" % (kind, k, SUFFIX[fmt].replace(".", "-")))
            if not os.path.isdir(inner):
                os.mkdir(inner)
            if not os.path.islink(link):
                os.symlink(inner, link)
            path = os.path.join(link, os.pardir, os.path.basename(path))
        if kind == "T" and k == 2:
            return ""  # the second file of this kind has no name at all (what an unset shell variable leaves behind)
        return path + os.sep if kind == "T" else path

    def paths(self, kinds, fmt):
        seen = {}
        result = []
        for kind in kinds:
            seen[kind] = seen.get(kind, 0) + 1
            result.append(self.data_path(kind, seen[kind], fmt))
        return result

    def api_verdict(self, sub, kind, k, fmt, until, container="csv"):
        """Verdict of the programmatic API on a fresh Cid; None if the API failed in an undocumented way."""
        if kind in UNREADABLE_KINDS:
            return "unreadable"
        key = (kind, k, fmt, until, container != "csv")
        if key not in self._verdicts:
            limit = None if until in ("absent", "-1") else int(until)
            path = self.data_path(kind, k, fmt)
            cid = cidlib.load_cid(cid_table(fmt, lenient=container != "csv"))
            try:
                cutplace.validate(cid, path, validate_until=limit)
                verdict = "accepted"
            except errors.DataError:
                verdict = "rejected"
            except errors.InterfaceError as error:
                # the CID's count rule cannot be evaluated for this file: an error of the CID, so exit code 1
                verdict = "rejected" if kind == "E" else None
                if verdict is None:
                    sub.notes["api-error:%s%d:%s:until-%s" % (kind, k, fmt, until)] = "InterfaceError: %s" % (
                        norm_message(error),)
            except Exception as error:
                verdict = None
                sub.notes["api-error:%s%d:%s:until-%s" % (kind, k, fmt, until)] = "%s: %s" % (
                    type(error).__name__, norm_message(error))
            if verdict is not None and built_verdict(kind, until) is not None and verdict != built_verdict(kind, until):
                sub.notes["api-differs-from-construction:%s%d:%s:until-%s" % (kind, k, fmt, until)] = (
                    "cutplace.validate says %s, the file was built to be %s" % (verdict, built_verdict(kind, until)))
            self._verdicts[key] = verdict
        return self._verdicts[key]


# -- running ---------------------------------------------------------------------------
def run_main(argv):
    sink = io.StringIO()
    try:
        with contextlib.redirect_stderr(sink), contextlib.redirect_stdout(sink):
            return applications.main(argv)
    except SystemExit as error:
        return "SystemExit(%r)" % (error.code,)


def run_subprocess(argv, cwd):
    env = dict(os.environ)
    env["PYTHONPATH"] = vrepo.REPO
    env["PYTHONDONTWRITEBYTECODE"] = "1"
    done = subprocess.run([sys.executable, "-W", "ignore", "-m", "cutplace.applications"] + list(argv[1:]), cwd=cwd,
                          env=env, stdin=subprocess.DEVNULL, stdout=subprocess.DEVNULL, stderr=subprocess.DEVNULL,
                          timeout=120)
    return done.returncode


LOG_LEVELS = (None, "critical", "error", "warning", "info", "debug")


def log_args(log):
    return [] if log is None else ["--log", log]


def until_args(until):
    return [] if until == "absent" else ["--until", until]


def expectation(cid_state, verdicts):
    """(set of acceptable exit codes, class text naming what decides the expectation)."""
    unreadable = sorted(set(k for k, v in verdicts if v == "unreadable"))
    rejected = sorted(set(k for k, v in verdicts if v == "rejected"))
    names = {"M": "missing", "D": "directory", "F": "field", "U": "unique", "E": "count-rule"}
    unreadable_text = "data-" + ("missing" if "M" in unreadable else "directory" if "D" in unreadable else
                                 "trailing-separator")  # one bucket per root cause
    rejected_text = "rejected-by-" + (names.get(rejected[0], "end-check") if rejected else "")  # per root cause
    if cid_state in ("missing", "directory"):
        return {3}, "cid-" + cid_state
    if cid_state == "rejected":
        if unreadable:
            return {1, 3}, "cid-rejected," + unreadable_text
        return {1}, "cid-rejected"
    if unreadable and rejected:
        return {1, 3}, rejected_text + "," + unreadable_text
    if unreadable:
        return {3}, unreadable_text
    if rejected:
        return {1}, rejected_text
    kinds = [k for k, _ in verdicts]
    shares = kinds.count("S") >= 2 or ("S" in kinds and "A" in kinds)
    if not kinds:
        return {0}, "cid-only"
    return {0}, "accepted-sharing-keys" if shares else "accepted"


def _fail(sub, signature, case, message):
    case = dict(case)
    case["observed"] = message
    sub.fail(signature, case, message)


def run_shards(ctx, fn, args_list, size):
    """Like ctx.par, but the case kept for each signature is the smallest one met by any shard."""
    subs = par_map(fn, args_list, ctx.workers)
    met = {}
    for sub in subs:
        for signature, entry in sub.fails.items():
            met.setdefault(signature, []).extend(entry["cases"])
        ctx.merge(sub)
    for signature, cases in met.items():
        entry = ctx.total.fails[signature]
        cases.extend(c for c in entry["cases"] if c not in cases)
        cases.sort(key=size)
        entry["cases"] = cases[:3]
        entry["message"] = cases[0].get("observed", entry["message"])


def case_size(case):
    files = case.get("files") or []
    until = case.get("until", "absent")
    return (len(files), UNTILS.index(until) if until in UNTILS else 0, "".join(files), str(case.get("arguments")))


def set_text(codes):
    return "+".join(str(c) for c in sorted(codes))


def check_multiset(sub, files, variant, multiset, classes, only=None):
    """Every order of one multiset of kinds x every --until.  Returns (evaluations, nontrivial)."""
    container, cid_state, fmt = variant
    cid_path = files.cid_path(container, cid_state, fmt)
    orders = sorted(set(itertools.permutations(multiset)))
    evals = nontrivial = 0
    # the file format that can matter for the outcome goes last: the CID's container while the CID does not load,
    # the data format otherwise
    written_state, cid_state = cid_state, files.judged_state(cid_state, cid_path)
    where = "data-%s" % fmt if cid_state == "valid" else "cid-%s" % container
    if written_state != cid_state:
        where += "-" + written_state
        classes["cid:%s-judged-%s-by-api" % (written_state, cid_state)] = 1
    for until in UNTILS:
        occurrence = {}
        verdicts = []
        for kind in sorted(multiset):
            occurrence[kind] = occurrence.get(kind, 0) + 1
            verdicts.append((kind, files.api_verdict(sub, kind, occurrence[kind], fmt, until, container)))
        if any(v is None for _, v in verdicts):
            classes["skipped:api-error"] = classes.get("skipped:api-error", 0) + len(orders)
            continue
        # judge a file that is accepted only because the limit hides its bad row by what it is
        shown = [(k if v != "accepted" or k in ("A", "S") else "ok", v) for k, v in verdicts]
        expected, what = expectation(cid_state, shown)
        results = []
        for order_number, order in enumerate(orders):
            # how much the command line is asked to log says nothing about its exit code
            log = LOG_LEVELS[(UNTILS.index(until) + order_number + len(multiset)) % len(LOG_LEVELS)]
            case = {"cid": [container, written_state], "fmt": fmt, "files": list(order), "until": until,
                    "naming": files.naming, "log": log}
            if only is not None and not only(case):
                continue
            argv = ["cutplace"] + log_args(log) + until_args(until) + [cid_path] + files.paths(order, fmt)
            code = run_main(argv)
            results.append((case, code))
            evals += 1
            existing = [k for k in order if k not in UNREADABLE_KINDS]
            if len(order) >= 2 or (existing and until in ("3", "4")):
                nontrivial += 1
            for name in ["expected:" + set_text(expected), "got:%s" % code, "files:%d" % len(order),
                         "until:" + until, "variant:%s-%s-cid,%s-data" % (cid_state, container, fmt),
                         "decided-by:" + what.split(",")[0].split("-by-")[0]]:
                classes[name] = classes.get(name, 0) + 1
            if what == "accepted-sharing-keys":
                classes["accepted-sharing-keys"] = classes.get("accepted-sharing-keys", 0) + 1
            if any(k in ("F", "U") and v == "accepted" for k, v in verdicts):
                classes["bad-row-behind-limit"] = classes.get("bad-row-behind-limit", 0) + 1
        codes = sorted(set(str(code) for _, code in results))
        if len(codes) > 1:
            # the same files in another order give another exit code: "each file being judged independently of the
            # other files and of their order" makes the exit code a function of the set of files, also where {1,3}
            # leaves open which of the two codes that is
            case, _ = results[0]
            detail = dict(case)
            detail["codes_by_order"] = [["".join(c["files"]), code] for c, code in results]
            _fail(sub, "C18|order|codes-%s|%s|%s" % ("+".join(codes), what, where), detail,
                  "the same files give different exit codes depending on their order (expected %s): %s" % (
                      set_text(expected),
                      ", ".join("%s -> %s" % ("".join(c["files"]) or "-", code) for c, code in results)))
            continue
        for case, code in results:
            if code not in expected:
                _fail(sub, "C18|exit|expected-%s|got-%s|%s|%s" % (set_text(expected), code, what, where), case,
                      "main(%r) returned %s, expected %s; CID %s, per-file verdicts of cutplace.validate: %s" % (
                          ["cutplace"] + log_args(case["log"]) + until_args(until) + [os.path.basename(a) for a in
                                                              [cid_path] + files.paths(case["files"], fmt)],
                          code, set_text(expected), cid_state,
                          ", ".join("%s=%s" % kv for kv in verdicts) or "(no data files)"))
    return evals, nontrivial


BROKEN_ARGUMENTS = [
    ("no-arguments", []),
    ("unknown-option", ["--bogus", "CID"]),
    ("unknown-option-with-data", ["--bogus", "CID", "A1"]),
    ("until-not-a-number", ["--until", "x", "CID", "A1"]),
    ("until-below-minus-1", ["--until", "-2", "CID", "A1"]),
    ("until-fraction", ["--until", "1.5", "CID", "A1"]),
    ("until-without-value", ["CID", "A1", "--until"]),
    ("unknown-log-level", ["--log", "loud", "CID", "A1"]),
]


def check_broken_arguments(sub, files, name, template, via="main"):
    cid_path = files.cid_path("csv", "valid", "delimited")
    data_path = files.data_path("A", 1, "delimited")
    argv = ["cutplace"] + [cid_path if a == "CID" else data_path if a == "A1" else a for a in template]
    case = {"arguments": name, "template": template, "via": via}
    code = run_main(argv) if via == "main" else run_subprocess(argv, files.dir)
    sub.evaluations += 1
    sub.cls("arguments:" + name)
    sub.cls("got:%s" % code)
    if code not in (2, "SystemExit(2)"):
        _fail(sub, "C18|exit|expected-2|got-%s|arguments|%s" % (code, name), case,
              "unusable arguments %r: got %s, expected exit code 2" % (template, code))


# -- shards ------------------------------------------------------------------------------
def multisets():
    result = []
    for size in range(0, 4):
        result.extend(itertools.combinations_with_replacement(KINDS, size))
    return result


def units():
    return [(variant, multiset) for variant in VARIANTS for multiset in multisets()]


def _shard(args):
    index, count, todo = args[:3]
    seed = args[3] if len(args) > 3 else 0
    sub = Sub("enumeration")
    files = Files()
    classes = {}
    evals = nontrivial = 0
    try:
        for number, (variant, multiset) in enumerate(todo):
            if number % count != index:
                continue
            # every second unit keeps the plain names, the others rotate through the naming schemes
            turn = number // count + seed
            files.naming = "flat" if turn % 2 == 0 else NAMING_ORDER[(turn // 2 + index) % len(NAMING_ORDER)]
            classes["naming:" + files.naming] = classes.get("naming:" + files.naming, 0) + 1
            e, n = check_multiset(sub, files, variant, multiset, classes)
            evals += e
            nontrivial += n
            if number % 67 == 0 and len(sub.samples) < 2:
                sub.samples.append({"cid": list(variant[:2]), "fmt": variant[2], "files": list(multiset),
                                    "until": list(UNTILS), "orders": "all"})
        if index == 0:
            for name, template in BROKEN_ARGUMENTS:
                check_broken_arguments(sub, files, name, template)
    finally:
        files.close()
    sub.bulk(evals, nontrivial, classes)
    return sub


def _subprocess_shard(args):
    index, count, picks = args
    sub = Sub("subprocess")
    files = Files()
    try:
        for number, pick in enumerate(picks):
            if number % count != index:
                continue
            if pick[0] == "arguments":
                check_broken_arguments(sub, files, pick[1], pick[2], via="subprocess")
                continue
            variant, order, until = pick
            compare_with_subprocess(sub, files, variant, order, until)
    finally:
        files.close()
    return sub


def compare_with_subprocess(sub, files, variant, order, until):
    container, cid_state, fmt = variant
    argv = ["cutplace"] + until_args(until) + [files.cid_path(container, cid_state, fmt)] + files.paths(order, fmt)
    inside = run_main(argv)
    outside = run_subprocess(argv, files.dir)
    case = {"cid": [container, cid_state], "fmt": fmt, "files": list(order), "until": until, "via": "subprocess"}
    sub.case(("subprocess", variant, tuple(order), until), len(order) >= 2, ["subprocess:exit-%s" % outside],
             sample=case if len(sub.samples) < 1 else None)
    if str(inside) != str(outside):
        _fail(sub, "C18|subprocess|in-process-%s|subprocess-%s|cid-%s-%s|data-%s" % (
         inside, outside, cid_state, container, fmt), case,
         "python -m cutplace.applications exits with %s, applications.main returns %s for the same arguments" % (
             outside, inside))


def run(ctx):
    todo = units()
    # spread the expensive units (3 files, spreadsheet formats) evenly: stride through the list
    shards = max(1, ctx.workers * 2)
    run_shards(ctx, _shard, [(i, shards, todo, ctx.seed) for i in range(shards)], case_size)
    # subprocess sample, chosen by the seed
    every = []
    for variant in VARIANTS:
        for multiset in multisets():
            for order in sorted(set(itertools.permutations(multiset))):
                for until in UNTILS:
                    every.append((variant, order, until))
    wanted = ctx.n(32, 1600)
    step = max(1, len(every) // wanted)
    picks = every[(ctx.seed * 7) % step::step][:wanted]
    picks += [("arguments", name, template) for name, template in BROKEN_ARGUMENTS[:ctx.n(2, 8)]]
    workers = max(1, min(ctx.workers, len(picks)))
    run_shards(ctx, _subprocess_shard, [(i, workers, picks) for i in range(workers)], case_size)


def replay(sub, case):
    files = Files(case.get("naming", "flat"))
    try:
        if "arguments" in case:
            check_broken_arguments(sub, files, case["arguments"], case["template"], case.get("via", "main"))
            return
        variant = (case["cid"][0], case["cid"][1], case["fmt"])
        if case.get("via") == "subprocess":
            compare_with_subprocess(sub, files, variant, case["files"], case["until"])
            return
        wanted_until = case["until"]
        check_multiset(sub, files, variant, tuple(sorted(case["files"], key=KINDS.index)), {},
                       only=lambda c: c["until"] == wanted_until)
        sub.evaluations += 1
    finally:
        files.close()
