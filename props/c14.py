"""C14 - a validating writer emits only conforming rows; its output validates again."""
import csv
import io
import os
import shutil
import tempfile

from hypothesis import strategies as st

from props import c04
from vlib import cidlib, gen_tables, model_validio
from vlib.runner import norm_message

import cutplace
from cutplace import errors

PROPERTY_ID = "C14"
RULE = (
    "Hypothesis histories: a generated CID (delimited in two separator conventions, or fixed with line delimiter "
    "LF/CR/CRLF/Any/None; 1-5 fields of mixed types; header 0-1; optional IsUnique / DistinctCount) and a sequence "
    "of 0-8 write_row calls mixing accepted rows, rows with a rejected cell, rows with a wrong item count and "
    "duplicate keys, then close(). After EVERY call the stream content must equal the model's rendering of exactly "
    "the rows accepted so far (fixed: values right-padded with blanks to the field width, every line ended by the "
    "declared line delimiter, os.linesep under Any; delimited: compared after parsing with Python's csv reader); a "
    "rejected row must raise a DataError and change nothing; writing continues; close() raises the model's "
    "end-of-data verdict. Finally the output is read back under a fresh copy of the CID: every row accepted, values "
    "equal to the written ones (fixed: padded), same end-of-data verdict. Non-trivial: >= 1 rejected row followed by "
    ">= 1 accepted row; distinct by hash of (CID rows, history)."
    "Rows are handed over one write_row() at a time or ('bulk') every run of acceptable rows - header and data alike - in one write_rows() call (list or iterator). The free-text field may be the first field and then sometimes starts with a byte order mark, 'sep=;', 'ID' or '#'."
    "The writer may be given the path of the CID; a reader of the same CID file may start in the middle of the history."
)
ASSUMPTIONS = [
    "fixed-width values handed to the writer carry no trailing blanks (the format cannot represent them)",
    "header rows have the declared item count and fit the field widths (the writer does not validate them)",
    "the line terminator of delimited output is not judged (the csv module is never told the declared one)",
]

_LINE_ENDS = {"LF": "\n", "CR": "\r", "CRLF": "\r\n", "Any": os.linesep, "None": ""}


@st.composite
def cases(draw):
    spec = draw(gen_tables.cid_specs(kinds=("delimited", "delimited-de", "fixed"), max_header=2))
    fmt = spec["fmt"]
    if fmt["format"] == "fixed":
        fmt["line_delimiter"] = draw(st.sampled_from(["LF", "CR", "CRLF", "Any", "None"]))
    if fmt["format"] == "delimited" and (fmt.get("item_delimiter") or draw(st.booleans())):
        # another dialect (unless the spec already has one), and a free text field whose values contain every
        # character the dialects treat specially
        if not fmt.get("item_delimiter"):
            delimiter, quote, escape = draw(st.sampled_from(_DIALECTS))
            if delimiter != "," and (fmt["decimal"] == delimiter or fmt["thousands"] == delimiter):
                delimiter = "|"
            fmt["item_delimiter"], fmt["quote_character"], fmt["escape_character"] = delimiter, quote, escape
        # as the last or as the first field of the row
        spec["fields"].insert(draw(st.sampled_from([0, len(spec["fields"])])), {"name": "free_text9", "empty": True, "length": "", "length_items": None, "type": "Text",
                               "rule": "", "model": {}, "reject": [],
                               "accept": ["", "plain", "C:\\temp", "it's", 'say "hi"', "a;b", "a|b", "a,b", "\\", "'",
                                          '"', "\\\\", "''", '""', "a\\'b", 'x\\"', "\ufeffid", "\ufeff", "#", "sep=;"]})
    rows = draw(gen_tables.tables(spec, max_rows=8, ragged=True))
    if rows and rows[0] and spec["fields"][0]["name"] == "free_text9" and draw(st.integers(0, 2)) == 0:
        # a first cell that means something to some consumer of delimited files (byte order mark, Excel's separator
        # hint, the SYLK magic, a comment): for the writer and the reader it is text
        rows[0][0] = draw(st.sampled_from(["\ufeffid", "\ufeff", "sep=;", "ID", "#", "\ufeff\ufeff"]))
    if fmt["format"] == "fixed":
        # the caller need not pad: values come without their trailing blanks, with some of them or with all of them
        # (whatever the spelling, it is the same value once written)
        rows = [[cell.rstrip(" ") + " " * draw(st.sampled_from(
            [0, 0, min(1, len(cell) - len(cell.rstrip(" "))), len(cell) - len(cell.rstrip(" "))])) for cell in row]
            for row in rows]
        # values that are too long for their field only because of LEADING blanks (representable, unlike trailing
        # ones, and rejected by the length guard whatever their stripped text is)
        header_rows = fmt.get("header", 0)
        for index in range(header_rows, len(rows)):
            if rows[index] and len(rows[index]) == len(spec["fields"]) and draw(st.integers(0, 5)) == 0:
                column = draw(st.integers(0, len(rows[index]) - 1))
                width = spec["fields"][column]["length_items"][0][0]
                value = rows[index][column].strip(" ") or "x"
                rows[index][column] = " " * (width - len(value) + draw(st.integers(1, 2))) + value
        # the writer pads: also offer rows with a wrong item count
        if rows and draw(st.booleans()):
            victim = draw(st.integers(fmt.get("header", 0), len(rows))) if len(rows) > fmt.get("header", 0) else None
            if victim is not None and victim < len(rows):
                rows[victim] = rows[victim] + ["x"] if draw(st.booleans()) or len(rows[victim]) < 2 else rows[victim][:-1]
    target = draw(st.sampled_from(["stream", "stream", "path"]))
    if target == "path":
        # the writer opens the file with the declared encoding: a row it cannot encode is a row it cannot write
        fmt["encoding"] = draw(st.sampled_from(["utf-8", "utf-8", "ascii", "cp1252", "latin-1", "utf-16", "cp850"]))
    if any(c["type"] == "IsUnique" for c in spec["checks"]) and len(rows) > fmt.get("header", 0) and draw(st.booleans()):
        # the first data row once more at the end: a duplicate if that row was accepted
        rows.append(list(rows[fmt.get("header", 0)]))
    return {"spec": spec, "rows": rows, "target": target, "rows_as": draw(st.sampled_from(["list", "list", "tuple"])),
            "calls": draw(st.sampled_from(["rows", "rows", "bulk"])),
            "cid_via": draw(st.sampled_from(["object", "path"])),
            "visitor": draw(st.sampled_from([None, 1, 1, 2, 2, 3, 4]))}


def _render(spec, accepted):
    fmt = spec["fmt"]
    if fmt["format"] == "fixed":
        end = _LINE_ENDS[fmt.get("line_delimiter") or "Any"]
        out = ""
        for row in accepted:
            out += "".join(cell + " " * (field["length_items"][0][0] - len(cell))
                           for cell, field in zip(row, spec["fields"])) + end
        return out
    return None


# (item delimiter, quote character, escape character): the documented defaults, then the other documented choices
_DIALECTS = [(",", '"', '"'), (";", "'", '"'), ("|", '"', "\\"), (",", "'", "\\"), (";", '"', '"'), ("|", "'", '"')]


def _parse_delimited(text, fmt=None):
    """The table in ``text`` according to Python's csv reader set up independently for the CID's dialect."""
    fmt = fmt or {}
    delimiter = fmt.get("item_delimiter") or ","
    quote = fmt.get("quote_character") or '"'
    escape = fmt.get("escape_character") or '"'
    if escape == quote:
        options = {"doublequote": True}
    else:
        options = {"doublequote": False, "escapechar": escape}
    return [row for row in csv.reader(io.StringIO(text, newline=""), delimiter=delimiter, quotechar=quote, strict=True,
                                      **options)]


def check_case(sub, case):
    spec, rows = case["spec"], case["rows"]
    fmt = spec["fmt"]
    fixed = fmt["format"] == "fixed"
    label = fmt["kind"]
    header = fmt.get("header", 0)
    try:
        cid = c04.load(spec)
    except Exception as error:
        sub.fail("C14|cid-load|%s|%s" % (type(error).__name__, norm_message(error)), case, repr(error))
        return
    if case.get("target") == "path":
        target = _FileTarget(fmt.get("encoding") or "utf-8")
    else:
        target = io.StringIO(newline="")
    cid_folder = None
    if case.get("cid_via") == "path":
        # the writer is given the path of the CID instead of a Cid object
        cid_folder = tempfile.mkdtemp(prefix="c14-cid-")
        cid = os.path.join(cid_folder, "cid.csv")
        with open(cid, "w", encoding="utf-8", newline="") as f:
            csv.writer(f).writerows(cidlib.cid_rows(fmt, spec["fields"], gen_tables.check_rows(spec)))
    try:
        return _check_with_target(sub, case, cid, target)
    finally:
        if isinstance(target, _FileTarget):
            target.remove()
        if cid_folder:
            shutil.rmtree(cid_folder, ignore_errors=True)


class _FileTarget(object):
    """The writer is given the path of a file; what it holds is judged once the writer has been closed."""

    def __init__(self, encoding="utf-8"):
        self.folder = tempfile.mkdtemp(prefix="c14-")
        self.path = os.path.join(self.folder, "written.txt")
        self.closed = False
        self.encoding = encoding

    def getvalue(self):
        if not self.closed:
            return None
        with open(self.path, "r", encoding=self.encoding, newline="") as f:
            return f.read()

    def remove(self):
        shutil.rmtree(self.folder, ignore_errors=True)


def _check_with_target(sub, case, cid, target):
    spec, rows = case["spec"], case["rows"]
    fmt = spec["fmt"]
    fixed = fmt["format"] == "fixed"
    label = fmt["kind"]
    header = fmt.get("header", 0)
    try:
        writer = cutplace.Writer(cid, target.path if isinstance(target, _FileTarget) else target)
    except Exception as error:
        sub.fail("C14|writer-construct|%s|%s" % (label, type(error).__name__), case, repr(error))
        return
    state = model_validio.CheckState(spec)
    row_objects = {}
    accepted = []
    verdicts = []
    tainted = False
    # how the rows are handed over: one write_row() call each, or ("bulk") every run of rows that are to be accepted -
    # header rows and data rows alike - in one write_rows() call
    bulk = case.get("calls") == "bulk"
    pending = []

    def content_ok(row):
        content = target.getvalue()
        if content is None:
            return True
        if fixed:
            wanted = _render(spec, accepted)
            if content != wanted:
                sub.fail("C14|stream-content|%s|%s" % (label, fmt.get("line_delimiter")), case,
                         "after writing %r the stream holds %r, expected %r" % (row, content, wanted))
                return False
        else:
            try:
                parsed = _parse_delimited(content, fmt)
            except csv.Error as error:
                sub.fail("C14|stream-unparsable|%s" % label, case, "stream %r: %s" % (content, error))
                return False
            if parsed != accepted:
                sub.fail("C14|stream-content|%s" % label, case,
                         "after writing %r the stream parses to %r, expected %r" % (row, parsed, accepted))
                return False
        return True

    def flush():
        if not pending:
            return True
        handed_over = list(pending)
        del pending[:]
        try:
            writer.write_rows(handed_over if len(handed_over) % 2 else iter(handed_over))
        except Exception as error:
            sub.fail("C14|write-rows|%s|%s" % (label, type(error).__name__), case,
                     "write_rows(%r), all of them to be accepted, raised %s: %s" % (
                         handed_over, type(error).__name__, error))
            return False
        return content_ok(handed_over)

    for row_number, row in enumerate(rows):
        if isinstance(cid, str) and row_number == case.get("visitor"):
            # somebody else starts to read other data under the same CID file while this writer is at work: that is
            # a validation of its own, with a Cid of its own
            if not flush():
                return
            try:
                # (the header rows written so far, and every second time the data rows too)
                other = accepted if row_number % 2 else accepted[:header]
                other_text = _render(spec, other) if fixed else gen_tables.delimited_text(other, fmt=fmt)
                for _ in cutplace.rows(cid, io.StringIO(other_text, newline=""), on_error="continue"):
                    pass
            except errors.DataError:
                pass
        written = len(accepted)
        before = target.getvalue()
        if written < header:
            expectation = ("header",)
        elif tainted:
            expectation = ("neutral",)
        else:
            verdict = model_validio.row_verdict(spec, row)
            if verdict[0] == "neutral":
                expectation = ("neutral",)
                tainted = True
            elif verdict[0] == "count":
                expectation = ("reject", "DataError", None)
            elif verdict[0] == "cell":
                expectation = ("reject", "FieldValueError", verdict[1])
            else:
                # the checks see what is written: fixed-width values padded to the width of their field
                seen = row
                if fixed:
                    seen = [cell + " " * (field["length_items"][0][0] - len(cell))
                            for cell, field in zip(row, spec["fields"])]
                vetoed = state.check_row(seen, written)
                expectation = ("reject", "CheckError", None) if vetoed else ("accept",)
        if expectation[0] in ("header", "accept") and isinstance(target, _FileTarget):
            try:
                "".join(row).encode(target.encoding)
            except UnicodeError:
                expectation = ("reject", "DataFormatError", None)
        # a caller that writes the same row again usually hands over the same list object: keep one object per
        # distinct row so that a writer which modifies its argument is noticed
        handed = row_objects.setdefault(tuple(row), list(row))
        if case.get("rows_as") == "tuple":
            handed = tuple(row)  # as rows come from a database cursor: a sequence all the same
        if bulk:
            if expectation[0] in ("header", "accept"):
                pending.append(handed)
                accepted.append(list(row))
                verdicts.append(expectation[0])
                sub.evaluations += 1
                continue
            if not flush():
                return
            before = target.getvalue()
        try:
            writer.write_row(handed)
            outcome = None
        except errors.DataError as error:
            outcome = error
        except Exception as error:
            sub.fail("C14|write-exception|%s|%s|%s" % (label, type(error).__name__, expectation[0]), case,
                     "write_row(%r) raised %s: %s" % (row, type(error).__name__, error))
            return
        sub.evaluations += 1
        verdicts.append(expectation[0])
        if expectation[0] == "neutral":
            sub.cls("tainted")
            return
        if expectation[0] in ("header", "accept"):
            if outcome is not None:
                sub.fail("C14|rejected-but-must-accept|%s|%s" % (label, type(outcome).__name__), case,
                         "write_row(%r) must be accepted (%s) but: %s" % (row, expectation[0], outcome))
                return
            accepted.append(list(row))
        else:
            if outcome is None:
                sub.fail("C14|accepted-but-must-reject|%s|%s" % (label, expectation[1]), case,
                         "write_row(%r) must be rejected (%s) but was written" % (row, expectation[1]))
                return
            if type(outcome).__name__ != expectation[1]:
                sub.fail("C14|error-class|%s|expected-%s|got-%s" % (label, expectation[1], type(outcome).__name__), case,
                         "write_row(%r): %r" % (row, outcome))
            if before is not None and target.getvalue() != before:
                sub.fail("C14|rejected-row-left-output|%s" % label, case,
                         "rejected row %r changed the stream from %r to %r" % (row, before, target.getvalue()))
                return
        # stream content after every step
        if not content_ok(row):
            return
    if not flush():
        return
    # close
    end = "neutral" if tainted else state.at_end()
    close_error = None
    try:
        writer.close()
    except errors.DataError as error:
        close_error = error
    except Exception as error:
        sub.fail("C14|close-exception|%s|%s" % (label, type(error).__name__), case, repr(error))
        return
    sub.evaluations += 1
    if end == "ok" and close_error is not None:
        sub.fail("C14|close|unexpected-%s|%s" % (type(close_error).__name__, label), case,
                 "close() raised %s" % close_error)
    elif end != "ok" and end != "neutral":
        if close_error is None:
            sub.fail("C14|close|missing-check-error|%s" % label, case, "check %r must fail at close()" % (end[1],))
        elif not isinstance(close_error, errors.CheckError):
            sub.fail("C14|close|%s-instead-of-CheckError|%s" % (type(close_error).__name__, label), case, repr(close_error))
    # a file the writer opened itself: judged now that the writer has been closed
    if isinstance(target, _FileTarget):
        target.closed = True
        content = target.getvalue()
        if fixed:
            if content != _render(spec, accepted):
                sub.fail("C14|stream-content|%s|%s|path" % (label, fmt.get("line_delimiter")), case,
                         "the file written holds %r, expected %r" % (content, _render(spec, accepted)))
                return
        else:
            try:
                parsed = _parse_delimited(content, fmt)
            except csv.Error as error:
                sub.fail("C14|stream-unparsable|%s|path" % label, case, "file %r: %s" % (content, error))
                return
            if parsed != accepted:
                sub.fail("C14|stream-content|%s|path" % label, case,
                         "the file written parses to %r, expected %r" % (parsed, accepted))
                return
    # read back under a fresh CID
    output = target.getvalue()
    fresh = c04.load(spec)
    items, ended = c04.read_all(fresh, io.StringIO(output, newline=""), "yield")
    sub.evaluations += 1
    if fixed:
        wanted_rows = [[cell + " " * (field["length_items"][0][0] - len(cell)) for cell, field in zip(row, spec["fields"])]
                       for row in accepted]
    else:
        wanted_rows = accepted
    data_rows = wanted_rows[header:]
    if ended is not None and not isinstance(ended, errors.CheckError):
        sub.fail("C14|read-back|%s|%s" % (type(ended).__name__, label), case,
                 "reading %r back raised %s: %s" % (output, type(ended).__name__, ended))
    else:
        rejected = [i for i in items if isinstance(i, Exception)]
        if rejected:
            sub.fail("C14|read-back|row-rejected|%s|%s" % (type(rejected[0]).__name__, label), case,
                     "output %r read back under the same CID: %s" % (output, rejected[0]))
        elif items != data_rows:
            sub.fail("C14|read-back|rows-differ|%s" % label, case,
                     "written %r, read back %r (output %r)" % (data_rows, items, output))
        else:
            # the verdict of the written data on its own: a row vetoed by a later check may already have been
            # counted by an earlier DistinctCount in the writer run, so the two verdicts may legitimately differ
            reread = model_validio.predict(spec, wanted_rows)
            if not reread["tainted"] and (ended is None) != (reread["end"] == "ok"):
                sub.fail("C14|read-back|end-verdict|%s" % label, case,
                         "the written rows alone end with %r, reading them back ended with %r" % (reread["end"], ended))
    nontrivial = False
    seen_reject = False
    for v in verdicts:
        if v == "reject":
            seen_reject = True
        elif v == "accept" and seen_reject:
            nontrivial = True
    classes = ["format:" + label, "header:%d" % header, "target:" + case.get("target", "stream"),
               "rows-as:" + case.get("rows_as", "list"), "calls:" + case.get("calls", "rows")] + [
        "step:" + v for v in verdicts]
    if fixed:
        classes.append("line-delimiter:%s" % fmt.get("line_delimiter"))
    if end not in ("ok", "neutral"):
        classes.append("end:check-error")
    sub.case((str(spec["fields"]), str(spec["checks"]), rows), nontrivial, classes,
             sample={"format": label, "line_delimiter": fmt.get("line_delimiter"), "rows": rows[:6],
                     "verdicts": verdicts[:6], "output": target.getvalue()[:120]}, evals=0)


def run(ctx):
    ctx.hyp("histories", cases, check_case, ctx.n(4000, 40000))


def replay(sub, case):
    check_case(sub, case)
