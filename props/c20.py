"""C20 - user-defined field formats and checks are driven by the documented call protocol."""
import inspect
import json
import os
import shutil
import subprocess
import sys
import tempfile

from hypothesis import strategies as st

from vlib import recplugins  # the ONLY importer of this module (see its docstring); workers are forked afterwards
from vlib import repo
from vlib.runner import norm_message

import cutplace
from cutplace import interface

PROPERTY_ID = "C20"
RULE = (
    "Hypothesis: one case = one CID + 1-3 consecutive runs on that single Cid object. CID: delimited or fixed, "
    "header 0-2, allowed characters none or a range excluding one character; 1-4 fields, at least one of the "
    "recording type 'Rec' (vlib/recplugins.py; empty flag, length none/exact/lower/upper/closed/two items - fixed: "
    "a width -, rule 'ok' or 'reject:<values>') mixed with built-in Text and Integer fields; 0-3 recording checks "
    "'Rec' (rule from 'ok', 'veto:<field>=<value>', 'fail-at-end') optionally mixed with one built-in IsUnique at any "
    "position. Run: api cutplace.rows / Reader.rows()+close() / Writer.write_row()+close(), error mode "
    "raise/yield/continue, validation limit none or 0..rows+1 (reader), optional second close(); table of 0-6 rows "
    "(first 'header' rows are header rows of arbitrary content) whose cells are fine, empty, blank-only, too long, "
    "too short, in a length gap, with a disallowed character, or listed as rejected; rows with a wrong number of "
    "items (delimited reader, writer). Fixed cells reach the reader padded to the width. The recorded call log of "
    "every run is compared with a protocol predictor written from the statement; the first differing position is "
    "reported. The same scenarios (at least 2 fields, 1 check, 3 rows) are run in a subprocess through "
    "interface.import_plugins(folder) on a generated plugin file with documentation-style class names whose classes "
    "print their call log as JSON. Non-trivial case: a validated row with a rejected cell that is not in the last "
    "column, or a veto by a check that is not the last, or a second run on the same CID; distinct by hash of the case."
    "Plugin styles include 'lean' (checks inherit cleanup()); class stems include ones that end in 'Check' / 'FieldFormat'."
    "Recording checks keep the row map they were given and report when it changes; stems None / True / Match; plugin module __init__."
    "Runs also go through cutplace.validate()."
)
ASSUMPTIONS = [
    "neutral: the order in which the checks are reset and the order in which they are cleaned up (only 'each exactly "
    "once, resets before the first row, cleanups after the end-of-data verdicts' is demanded)",
    "neutral: whether checks declared after one that fails at the end are still asked (both 'all' and 'up to the "
    "first failing one' are accepted)",
    "neutral: after a run aborted by the first rejection in 'raise' mode the end-of-data verdicts may be asked or "
    "not; cleanup of every check exactly once is demanded when the run is closed",
    "neutral: the row number passed to check_row by a writer; leading blanks of the value passed to validated_value "
    "for fixed data (trailing blanks must be gone, as documented); native versus text values in the row map "
    "(compared as stripped text)",
    "sound inputs only: header rows given to a fixed writer fit the widths; too-long cells contain no blanks except the 'too long only by leading blanks' kind given to fixed writers; in "
    "fixed data two cells of a column that are equal after stripping are spelled identically (so IsUnique is "
    "unambiguous); Integer cells come from a table of clear verdicts (0, 7, 42 accepted; -1, 100, x rejected)",
    "neutral: whether the end-of-data verdicts and the cleanup happen inside close() or already when the rows are "
    "exhausted (asserted: complete, and nothing further, by the time a second close() is called)",
    "built-in Text, Integer and IsUnique behave as C02/C03/C05 state (own small models here)",
    "the recording classes do not call reset() in their constructor; examples in the CID are left empty",
]

FIELD_TYPES = ("Rec", "Rec", "Rec", "Text", "Integer")
CANDIDATES = ("a", "b", "c", "ab", "bc", "ca", "abc", "bca", "cab", "abca", "bcab", "cabc")
ALLOWED_VARIANTS = (
    None,
    None,
    {"items": [[32, 34], [36, 126]], "bad": "#"},
    {"items": [[32, 121], [123, 126]], "bad": "z"},
    {"items": [[None, 121]], "bad": "z"},
)
INTEGER_ACCEPTED = ("0", "7", "42")
INTEGER_REJECTED = ("-1", "x", "100")


# -- rendering ------------------------------------------------------------------------------------------------
def _range_text(items):
    parts = []
    for lo, hi in items:
        if lo is not None and lo == hi:
            parts.append(str(lo))
        else:
            parts.append("%s...%s" % ("" if lo is None else lo, "" if hi is None else hi))
    return ", ".join(parts)


def cid_rows(case):
    rows = [["D", "Format", "Fixed" if case["fmt"] == "fixed" else "Delimited"]]
    if case["header"]:
        rows.append(["D", "Header", str(case["header"])])
    late = []
    if case["allowed"] is not None:
        # only Format has to come first: the other properties may stand behind the fields or at the very end
        where = case.get("allowed_row", "before-fields")
        (rows if where == "before-fields" else late).append(
            ["D", "Allowed characters", _range_text(case["allowed"]["items"])])
    for field in case["fields"]:
        rows.append(["F", field["name"], "", "X" if field["empty"] else "",
                     "" if field["items"] is None else _range_text(field["items"]), field["type"], field["rule"]])
    if case.get("allowed_row") == "after-fields":
        rows.extend(late)
    for check in case["checks"]:
        rows.append(["C", check["desc"], check["type"], check["rule"]])
    if case.get("allowed_row") == "last":
        rows.extend(late)
    return rows


def data_text(case, table):
    """The table as the text a reader is given (delimited: every cell quoted; fixed: cells padded to the width)."""
    lines = []
    if case["fmt"] == "fixed":
        for row in table:
            lines.append("".join(cell.ljust(field["items"][0][0]) for cell, field in zip(row, case["fields"])))
    else:
        for row in table:
            lines.append(",".join('"%s"' % cell for cell in row))
    return "".join(line + "\n" for line in lines)


# -- generators -------------------------------------------------------------------------------------------------
def _fits(items, n):
    if items is None:
        return True
    return any((lo is None or n >= lo) and (hi is None or n <= hi) for lo, hi in items)


def _draw_field(draw, index, ftype, fmt, type_name):
    field = {"name": "f%s" % "abcd"[index], "kind": ftype, "type": type_name if ftype == "Rec" else ftype,
             "empty": draw(st.booleans()), "rule": "", "rejects": [], "items": None}
    if fmt == "fixed":
        width = draw(st.integers(2 if ftype == "Integer" else 1, 4))
        field["items"] = [[width, width]]
        fine_lengths = list(range(1, width + 1))
    elif ftype == "Integer":
        fine_lengths = [1, 2]
    else:
        shape = draw(st.sampled_from(["none", "none", "exact", "lower", "upper", "closed", "multi"]))
        if shape == "exact":
            n = draw(st.integers(1, 4))
            field["items"] = [[n, n]]
        elif shape == "lower":
            field["items"] = [[draw(st.integers(0, 3)), None]]
        elif shape == "upper":
            field["items"] = [[None, draw(st.integers(1, 4))]]
        elif shape == "closed":
            a = draw(st.integers(0, 3))
            field["items"] = [[a, draw(st.integers(max(a, 1), 4))]]
        elif shape == "multi":
            a = draw(st.integers(1, 2))
            field["items"] = [[a, a], [a + 2, 4]]
        fine_lengths = [n for n in range(1, 5) if _fits(field["items"], n)]
    if ftype == "Integer":
        field["rule"] = "0...99"
        field["pool"] = draw(st.lists(st.sampled_from(INTEGER_ACCEPTED), min_size=1, max_size=3, unique=True))
        return field
    candidates = [c for c in CANDIDATES if len(c) in fine_lengths]
    chosen = draw(st.lists(st.sampled_from(candidates), min_size=2, max_size=min(5, len(candidates)), unique=True))
    n_pool = draw(st.integers(min(2, len(chosen) - 1), min(3, len(chosen))))
    field["pool"] = chosen[:n_pool]
    if ftype == "Rec":
        field["rejects"] = chosen[n_pool:n_pool + 2] if draw(st.integers(0, 2)) else []
        field["rule"] = ("reject:" + "|".join(field["rejects"])) if field["rejects"] else "ok"
    return field


def _bad_kinds(field, fmt, api, allowed):
    kinds = ["empty", "blank"] if (fmt == "fixed" or field["kind"] != "Integer") else ["empty"]
    items = field["items"]
    if items is not None:
        highs = [hi for _, hi in items]
        lows = [lo for lo, _ in items]
        if None not in highs and (fmt == "delimited" or api == "writer"):
            kinds.append("long")
        if fmt == "fixed" and api == "writer":
            kinds.append("longblank")  # too long only because of leading blanks: the guard sees the raw cell
        if fmt == "delimited":
            if None not in lows and min(lows) >= 2:
                kinds.append("short")
            if len(items) == 2:
                kinds.extend(["gap", "gap"])
    if allowed is not None:
        kinds.append("badchar")
    if field["rejects"] or field["kind"] == "Integer":
        kinds.extend(["listed", "listed"])
    return kinds


def _draw_cell(draw, field, kind, fmt, allowed):
    width = field["items"][0][0] if fmt == "fixed" else None
    filler = "9" if field["kind"] == "Integer" else "c"
    if kind == "fine":
        cell = draw(st.sampled_from(field["pool"]))
        if width is not None and field["kind"] != "Integer" and len(cell) < width and draw(st.integers(0, 5)) == 0:
            cell = " " + cell
        return cell
    if kind == "empty":
        return ""
    if kind == "blank":
        return " " * (draw(st.integers(1, width)) if width is not None else draw(st.integers(1, 2)))
    if kind == "long":
        return filler * (max(hi for _, hi in field["items"]) + 1)
    if kind == "longblank":
        cell = draw(st.sampled_from(field["pool"]))
        return " " * (width - len(cell.strip(" ")) + draw(st.integers(1, 2))) + cell.strip(" ")
    if kind == "short":
        return filler * (min(lo for lo, _ in field["items"]) - 1)
    if kind == "gap":
        return filler * (field["items"][0][1] + 1)
    if kind == "badchar":
        cell = draw(st.sampled_from(field["pool"]))
        at = draw(st.integers(0, len(cell) - 1))
        return cell[:at] + allowed["bad"] + cell[at + 1:]
    if kind == "listed":
        if field["kind"] == "Integer":
            return draw(st.sampled_from([c for c in INTEGER_REJECTED if width is None or len(c) <= width]))
        return draw(st.sampled_from(field["rejects"]))
    raise ValueError(kind)


def _draw_row(draw, case, api, as_header):
    fields = case["fields"]
    fmt = case["fmt"]
    n = len(fields)
    if as_header:
        bad_columns = set(range(n)) if draw(st.booleans()) else set()
    else:
        n_bad = draw(st.sampled_from([0, 0, 0, 0, 1, 1, 1, 2]))
        bad_columns = set(draw(st.lists(st.integers(0, n - 1), min_size=min(n_bad, n), max_size=min(n_bad, n),
                                        unique=True))) if n_bad else set()
    row = []
    for column, field in enumerate(fields):
        kind = "fine"
        if column in bad_columns:
            kinds = _bad_kinds(field, fmt, api, case["allowed"])
            if as_header and fmt == "fixed":
                # a fixed writer cannot represent over-long header cells (sound inputs only)
                kinds = [k for k in kinds if k not in ("long", "longblank")]
            kind = draw(st.sampled_from(kinds))
        row.append(_draw_cell(draw, field, kind, fmt, case["allowed"]))
    if as_header and fmt == "delimited" and row and draw(st.integers(0, 2)) == 0:
        # a caption over several lines: still one row
        column = draw(st.integers(0, len(row) - 1))
        row[column] = row[column] + draw(st.sampled_from(["\n", "\r\n", "\nsecond line", "\n\n"]))
    ragged_ok = (fmt == "delimited") if api != "writer" else (not as_header or fmt == "delimited")
    if ragged_ok and draw(st.integers(0, 9)) == 0:
        if n >= 2 and draw(st.booleans()):
            row = row[:-1]
        else:
            row = row + ["a"]
    return row


def _canonical_fixed(table, n_fields):
    """Fixed data: cells of one column that are equal after stripping get the spelling of the first one."""
    seen = [dict() for _ in range(n_fields)]
    result = []
    for row in table:
        new_row = []
        for column, cell in enumerate(row):
            if column < n_fields:
                cell = seen[column].setdefault(cell.strip(" "), cell)
            new_row.append(cell)
        result.append(new_row)
    return result


@st.composite
def cases(draw, plugin=False):
    fmt = draw(st.sampled_from(["delimited", "fixed"]))
    case = {"fmt": fmt, "header": draw(st.sampled_from([0, 0, 1, 1, 2])),
            "allowed": draw(st.sampled_from(ALLOWED_VARIANTS)), "fields": [], "checks": [], "runs": [],
            "plugin": None}
    case["allowed_row"] = draw(st.sampled_from(["before-fields", "before-fields", "after-fields", "last"]))
    n_fields = draw(st.integers(2 if plugin else 1, 4))
    kinds = [draw(st.sampled_from(FIELD_TYPES)) for _ in range(n_fields)]
    if "Rec" not in kinds:
        kinds[draw(st.integers(0, n_fields - 1))] = "Rec"
    field_stems = check_stems = ()
    if plugin:
        field_stems = draw(st.lists(st.sampled_from(recplugins.PLUGIN_FIELD_STEMS), min_size=1, max_size=3,
                                    unique=True))
        check_stems = draw(st.lists(st.sampled_from(recplugins.PLUGIN_CHECK_STEMS), min_size=1, max_size=2,
                                    unique=True))
        case["plugin"] = {"field_stems": field_stems, "check_stems": check_stems,
                          "files": draw(st.sampled_from([1, 1, 2, "two-folders"])),
                          "how": draw(st.sampled_from(["import_plugins", "user-code-after-first-cid"])),
                          # '__init__': the plugin folder is a package and the classes live in its marker file
                          "module": draw(st.sampled_from(["myplugins", "c20_recording_plugins", "__init__"]))}
        case["plugin"]["folder"] = draw(st.sampled_from(["plugins", "plugins", "plug[1]", "my plugins", "pl*gins?", "plüg"]))
        # how the plugin classes are built: on their own, with a subclass next to them, or from a mixin
        case["plugin"]["style"] = draw(st.sampled_from(recplugins.PLUGIN_STYLES))
        if case["plugin"]["files"] == "two-folders":
            # fields and checks in files of the SAME name in two plugin folders imported one after the other
            case["plugin"]["how"] = "import_plugins"
        elif case["plugin"]["how"] == "import_plugins" and draw(st.integers(0, 2)) == 0:
            # a plugin file may be called anything - also like a module Python or cutplace have loaded already
            case["plugin"]["module"] = draw(st.sampled_from(["numbers", "string", "types", "token", "time", "csv",
                                                             "fields", "checks", "data", "cutplace", "plugins"]))
    for index, kind in enumerate(kinds):
        type_name = draw(st.sampled_from(field_stems)) if plugin else "Rec"
        case["fields"].append(_draw_field(draw, index, kind, fmt, type_name))
    n_rec_checks = draw(st.sampled_from([1, 2, 2, 3] if plugin else [0, 1, 1, 2, 2, 2, 3, 3]))
    # descriptions in an order that differs from the alphabetical one in most cases
    descriptions = draw(st.permutations(["c1", "c2", "c3", "c4"]))
    for index in range(n_rec_checks):
        clauses = []
        for _ in range(draw(st.sampled_from([0, 0, 1, 1, 1, 2]))):
            field = draw(st.sampled_from(case["fields"]))
            clauses.append([field["name"], draw(st.sampled_from(field["pool"]))])
        fails = draw(st.integers(0, 3)) == 0
        rule = ";".join(["veto:%s=%s" % (f, v) for f, v in clauses] + (["fail-at-end"] if fails else [])) or "ok"
        case["checks"].append({"desc": descriptions[index], "kind": "Rec",
                               "type": draw(st.sampled_from(check_stems)) if plugin else "Rec", "rule": rule,
                               "vetoes": clauses, "fails": fails})
    if draw(st.integers(0, 2)) == 0:
        keys = draw(st.lists(st.sampled_from([f["name"] for f in case["fields"]]), min_size=1, max_size=2,
                             unique=True))
        case["checks"].insert(draw(st.integers(0, len(case["checks"]))),
                              {"desc": draw(st.sampled_from(["a0", "c25", "u"])), "kind": "IsUnique", "type": "IsUnique", "rule": ", ".join(keys),
                               "keys": keys})
    for _ in range(draw(st.sampled_from([1, 1, 2, 2, 3]))):
        api = draw(st.sampled_from(["rows", "reader", "writer", "rows", "reader", "writer", "validate"]))
        n_rows = draw(st.integers(3 if plugin else 0, 6))
        table = [_draw_row(draw, case, api, index < case["header"]) for index in range(n_rows)]
        if fmt == "fixed":
            table = _canonical_fixed(table, n_fields)
        run = {"api": api, "mode": draw(st.sampled_from(["raise", "yield", "continue"])), "limit": None,
               "second_close": api not in ("rows", "validate") and draw(st.booleans()), "table": table}
        if api == "validate":
            run["mode"] = "raise"  # cutplace.validate(): the first rejection ends it
        if not plugin and draw(st.integers(0, 3)) == 0:
            # the CID named by the path of its file instead of handed over as an object (as in the README)
            run["cid_via"] = "path"
        if api != "writer":
            if draw(st.booleans()):
                run["limit"] = draw(st.integers(0, n_rows + 1))
            run["text"] = data_text(case, table)
        case["runs"].append(run)
    return case


# -- protocol predictor (from the statement; does not import cutplace) ------------------------------------------------
def cell_outcome(field, fmt, allowed, cell):
    """What the protocol demands for one cell: ('guard', kind) rejected without a call, ('skip',) accepted as empty
    without a call, ('call', value, accepted) value hook called."""
    if allowed is not None:
        for ch in cell:
            if not _fits(allowed["items"], ord(ch)):
                return ("guard", "chars")
    content = cell.strip(" ") if fmt == "fixed" else cell
    if content == "":
        return ("skip",) if field["empty"] else ("guard", "empty")
    if fmt == "fixed":
        if len(cell) > field["items"][0][0]:
            return ("guard", "long")
    elif not _fits(field["items"], len(cell)):
        highs = [hi for _, hi in field["items"]]
        lows = [lo for lo, _ in field["items"]]
        if None not in highs and len(cell) > max(highs):
            return ("guard", "long")
        if None not in lows and len(cell) < min(lows):
            return ("guard", "short")
        return ("guard", "gap")
    if field["kind"] == "Rec":
        return ("call", content, content.strip(" ") not in field["rejects"])
    if field["kind"] == "Text":
        return ("call", None, True)
    if content in INTEGER_ACCEPTED:
        return ("call", None, True)
    if content in INTEGER_REJECTED or not content.isdigit():
        return ("call", None, False)
    raise ValueError("Integer cell %r outside the table of clear verdicts" % cell)


def predict_run(case, run):
    """Expected call log of one run: {'options': [log, ...], 'classes': [...], 'nontrivial': bool}."""
    fields = case["fields"]
    fmt = case["fmt"]
    n = len(fields)
    checks = case["checks"]
    rec_checks = [c for c in checks if c["kind"] == "Rec"]
    writer = run["api"] == "writer"
    classes = []
    nontrivial = False
    events = []
    unique_keys = set()
    aborted = False
    row_number = 0
    for row in run["table"]:
        if not writer:
            row_number += 1
            if row_number <= case["header"]:
                classes.append("row:header")
                continue
            if run["limit"] is not None and row_number > run["limit"]:
                classes.append("row:beyond-limit")
                continue
        elif row_number < case["header"]:
            row_number += 1  # written without validation
            classes.append("row:header")
            continue
        rejected = None
        if len(row) != n:
            rejected = "count"
        else:
            for column, (field, cell) in enumerate(zip(fields, row)):
                outcome = cell_outcome(field, fmt, case["allowed"], cell)
                if outcome[0] == "call":
                    if field["kind"] == "Rec":
                        events.append(("validated_value", field["name"], outcome[1]))
                    if not outcome[2]:
                        rejected = "rule:" + field["kind"]
                elif outcome[0] == "guard":
                    rejected = "guard:" + outcome[1]
                else:
                    classes.append("cell:accepted-empty")
                if rejected:
                    if column < n - 1:
                        classes.append("rejected-cell-not-in-last-column")
                        nontrivial = True
                    break
            if not rejected:
                values = tuple(cell.strip(" ") for cell in row)
                by_name = dict(zip([f["name"] for f in fields], values))
                for position, check in enumerate(checks):
                    last = position == len(checks) - 1
                    if check["kind"] == "Rec":
                        events.append(("check_row", check["desc"], None if writer else row_number, values))
                        if any(by_name[f] == v for f, v in check["vetoes"]):
                            rejected = "veto:Rec:" + ("last" if last else "not-last")
                    else:
                        key = tuple(row[[f["name"] for f in fields].index(k)] for k in check["keys"])
                        if key in unique_keys:
                            rejected = "veto:IsUnique:" + ("last" if last else "not-last")
                        else:
                            unique_keys.add(key)
                    if rejected:
                        if not last:
                            nontrivial = True
                        break
        if rejected:
            classes.append("row:rejected:" + rejected)
            if run["mode"] == "raise":
                aborted = True
                classes.append("aborted-by-raise")
                break
        else:
            classes.append("row:accepted")
            if writer:
                row_number += 1
    resets = [("reset", c["desc"]) for c in rec_checks]
    cleanups = [("cleanup", c["desc"]) for c in rec_checks]
    if (case.get("plugin") or {}).get("style") == "lean":
        cleanups = []  # the checks leave cleanup() to the base class: nothing of it shows in the log
    all_at_end = [("check_at_end", c["desc"]) for c in rec_checks]
    at_end_options = [all_at_end]
    failing = [i for i, c in enumerate(rec_checks) if c["fails"]]
    if failing:
        classes.append("at-end:fails:" + ("last" if failing[0] == len(rec_checks) - 1 else "not-last"))
        if all_at_end[:failing[0] + 1] != all_at_end:
            at_end_options.append(all_at_end[:failing[0] + 1])
    if aborted and all_at_end:
        at_end_options.append([])
    tail = [("mark", "close2")] if run["second_close"] else []
    if run["second_close"]:
        classes.append("second-close")
    options = [resets + events + at_end + cleanups + tail for at_end in at_end_options]
    return {"options": options, "classes": classes, "nontrivial": nontrivial}


# -- comparison -------------------------------------------------------------------------------------------------------
def _entry(raw):
    return tuple(tuple(x) if isinstance(x, list) else x for x in raw)


def canonical_log(log, case, run):
    """Observed log with the neutral aspects normalised (see ASSUMPTIONS)."""
    order = dict((c["desc"], i) for i, c in enumerate(case["checks"]))
    entries = []
    for raw in log:
        entry = _entry(raw)
        if entry[0] == "validated_value" and case["fmt"] == "fixed" and isinstance(entry[2], str):
            entry = (entry[0], entry[1], entry[2].lstrip(" "))
        elif entry[0] == "check_row" and run["api"] == "writer":
            entry = (entry[0], entry[1], None) + entry[3:]
        entries.append(entry)
    result = []
    i = 0
    while i < len(entries):
        name = entries[i][0]
        j = i + 1
        if name in ("reset", "cleanup"):
            while j < len(entries) and entries[j][0] == name:
                j += 1
            result.extend(sorted(entries[i:j], key=lambda e: order.get(e[1], 99)))
        else:
            result.append(entries[i])
        i = j
    return result


def _first_difference(expected, observed):
    for i in range(max(len(expected), len(observed))):
        e = expected[i] if i < len(expected) else None
        o = observed[i] if i < len(observed) else None
        if e != o:
            return i, e, o
    return None


def _edit_distance(a, b):
    """Number of insertions and deletions that turn a into b."""
    previous = list(range(len(b) + 1))
    for i, x in enumerate(a, 1):
        current = [i]
        for j, y in enumerate(b, 1):
            current.append(min(previous[j] + 1, current[j - 1] + 1, previous[j - 1] + 2 * (x != y)))
        previous = current
    return previous[-1]


def _classify(index, e, o, expected, observed):
    """(direction, entry that names the difference)."""
    if o is None:
        return "missing", e
    if e is None:
        return "extra", o
    nxt_expected = expected[index + 1] if index + 1 < len(expected) else None
    nxt_observed = observed[index + 1] if index + 1 < len(observed) else None
    if nxt_expected == o and nxt_observed != e:
        return "missing", e
    if nxt_observed == e and nxt_expected != o:
        return "extra", o
    if observed.count(e) < expected.count(e):
        return "missing", e
    if observed.count(o) > expected.count(o):
        return "extra", o
    return "order", o


_SPECIAL = {"reset": "reset", "cleanup": "cleanup", "check_at_end": "at-end"}


def compare_run(case, run, log, max_differences=4):
    """List of (signature, message) for one run; [] if the log is one the protocol allows."""
    prediction = predict_run(case, run)
    observed = canonical_log(log, case, run)
    options = prediction["options"]
    group = "writer" if run["api"] == "writer" else "reader"
    stateful = any(c["kind"] != "Rec" for c in case["checks"])
    found = []
    for _ in range(max_differences):
        best = None
        for expected in options:
            difference = _first_difference(expected, observed)
            if difference is None:
                return found
            # judge against the allowed log that is closest to the observed one
            rank = (_edit_distance(expected, observed), -difference[0])
            if best is None or rank < best[2]:
                best = (expected, difference, rank)
        expected, (index, e, o) = best[:2]
        direction, entry = _classify(index, e, o, expected, observed)
        name = entry[0]
        if name in _SPECIAL:
            kind, call = _SPECIAL[name], "%s-%s" % (name, direction)
        else:
            kind, call = {"missing": "missing-call", "extra": "extra-call", "order": "order"}[direction], name
        after_second_close = ("mark", "close2") in observed[:index]
        if after_second_close:
            call += "-after-second-close"
        signature = "C20|%s|%s|%s|%s" % (group, case["fmt"], kind, call)
        message = ("%s run (api %s, mode %s, limit %s): first difference at position %d: expected %r, observed %r; "
                   "expected log %r; observed log %r" % (group, run["api"], run["mode"], run["limit"], index, e, o,
                                                        expected, observed))
        found.append((signature, message))
        # look behind the difference: repair the observation and compare again - but only where what follows does
        # not depend on the difference (a reset / verdict / cleanup call too few or too many); a difference among
        # the row calls changes everything after it, and whatever a second close() adds is one finding
        if after_second_close or name not in _SPECIAL:
            break
        if name == "reset" and stateful:
            break  # a built-in check kept or lost its state: what follows is a consequence, not a new finding
        if direction == "missing":
            observed = observed[:index] + [e] + observed[index:]
        elif direction == "extra":
            observed = observed[:index] + observed[index + 1:]
        else:
            break
    return found


# -- driving the public API (the source of this function is also copied into the subprocess driver) -------------------
def execute_runs(cutplace, cid, runs, mark, cid_path=None):
    """Run the scenarios the way a user of the API would; ``mark`` puts harness markers into the call log."""
    import io

    data_error = cutplace.errors.DataError
    outcomes = []
    shared_cid = cid
    for index, run in enumerate(runs):
        mark("run", index)
        cid = cid_path if (run.get("cid_via") == "path" and cid_path is not None) else shared_cid
        outcome = {"rejected": 0, "close_error": None, "unexpected": None}
        validator = None
        try:
            if run["api"] == "writer":
                validator = cutplace.Writer(cid, io.StringIO())
                for row in run["table"]:
                    try:
                        validator.write_row(list(row))
                    except data_error:
                        outcome["rejected"] += 1
                        if run["mode"] == "raise":
                            break
            elif run["api"] == "reader":
                validator = cutplace.Reader(cid, io.StringIO(run["text"], newline=""), on_error=run["mode"],
                                            validate_until=run["limit"])
                try:
                    for item in validator.rows():
                        if isinstance(item, Exception):
                            outcome["rejected"] += 1
                except data_error:
                    outcome["rejected"] += 1
            elif run["api"] == "validate":
                try:
                    cutplace.validate(cid, io.StringIO(run["text"], newline=""), validate_until=run["limit"])
                except data_error as error:
                    outcome["close_error"] = type(error).__name__
            else:
                try:
                    for item in cutplace.rows(cid, io.StringIO(run["text"], newline=""), on_error=run["mode"],
                                              validate_until=run["limit"]):
                        if isinstance(item, Exception):
                            outcome["rejected"] += 1
                except data_error as error:
                    outcome["close_error"] = type(error).__name__
            if validator is not None:
                try:
                    validator.close()
                except data_error as error:
                    outcome["close_error"] = type(error).__name__
                if run["second_close"]:
                    mark("close2")
                    try:
                        validator.close()
                    except data_error as error:
                        outcome["close2_error"] = type(error).__name__
        except Exception as error:
            outcome["unexpected"] = "%s: %s" % (type(error).__name__, error)
            outcome["unexpected_type"] = type(error).__name__
        outcomes.append(outcome)
    return outcomes


def split_log(log, n_runs):
    """Per-run logs, cut at the ('mark', 'run', i) entries the harness put in."""
    logs = [[] for _ in range(n_runs)]
    current = None
    for raw in log:
        entry = _entry(raw)
        if entry[:2] == ("mark", "run"):
            current = entry[2]
        elif current is not None:
            logs[current].append(entry)
    return logs


def judge(sub, case, logs, outcomes):
    classes = ["format:" + case["fmt"], "fields:%d" % len(case["fields"]),
               "rec-checks:%d" % len([c for c in case["checks"] if c["kind"] == "Rec"]),
               "runs:%d" % len(case["runs"]), "header:%d" % case["header"],
               "allowed:" + ("none" if case["allowed"] is None else "range")]
    if any(c["kind"] == "IsUnique" for c in case["checks"]):
        classes.append("with-IsUnique")
    for f in case["fields"]:
        classes.append("field:" + f["kind"])
    nontrivial = len(case["runs"]) >= 2
    for index, (run, log, outcome) in enumerate(zip(case["runs"], logs, outcomes)):
        group = "writer" if run["api"] == "writer" else "reader"
        sub.evaluations += 1
        classes.append("api:%s" % run["api"])
        classes.append("mode:%s:%s" % (group, run["mode"]))
        if index >= 1:
            classes.append("run-on-used-cid:%s-after-%s" % (run["api"], case["runs"][index - 1]["api"]))
        if run["api"] != "writer":
            classes.append("limit:" + ("none" if run["limit"] is None else "0" if run["limit"] == 0 else
                                       "beyond" if run["limit"] >= len(run["table"]) else "inside"))
        if outcome.get("unexpected"):
            sub.fail("C20|%s|%s|exception|%s" % (group, case["fmt"], outcome.get("unexpected_type")), case,
                     "run %d (api %s) raised %s" % (index, run["api"], outcome["unexpected"]))
            continue
        prediction = predict_run(case, run)
        classes.extend(prediction["classes"])
        nontrivial = nontrivial or prediction["nontrivial"]
        for signature, message in compare_run(case, run, log):
            sub.fail(signature, case, "run %d of %d: %s" % (index + 1, len(case["runs"]), message))
    sample = {"cid": cid_rows(case), "runs": [{k: r[k] for k in ("api", "mode", "limit", "second_close", "table")}
                                              for r in case["runs"]]}
    key = json.dumps(case, sort_keys=True)
    sub.case(key, nontrivial, classes, sample=sample, evals=0)


# -- in-process part -----------------------------------------------------------------------------------------------------
def _mark(*what):
    recplugins.LOG.append(("mark",) + what)


def check_case(sub, case):
    if case.get("plugin"):
        return check_plugin_case(sub, case)
    del recplugins.LOG[:]
    try:
        cid = interface.Cid()
        cid.read("c20", [list(r) for r in cid_rows(case)])
    except Exception as error:
        sub.case(None, False, ["construct-failed"])
        sub.fail("C20|construct|%s|%s" % (type(error).__name__, norm_message(error)), case,
                 "CID %r rejected: %s: %s" % (cid_rows(case), type(error).__name__, error))
        return
    # resolution by class name, exactly like built-ins
    for field, field_format in zip(case["fields"], cid.field_formats):
        expected = "RecFieldFormat" if field["kind"] == "Rec" else field["kind"] + "FieldFormat"
        if type(field_format).__name__ != expected or (field["kind"] == "Rec" and
                                                      type(field_format) is not recplugins.RecFieldFormat):
            sub.fail("C20|resolve|field|%s" % field["type"], case,
                     "field type %r resolved to %r" % (field["type"], type(field_format)))
    for check in case["checks"]:
        resolved = cid.check_map.get(check["desc"])
        if type(resolved).__name__ != check["type"] + "Check" or (check["kind"] == "Rec" and
                                                                  type(resolved) is not recplugins.RecCheck):
            sub.fail("C20|resolve|check|%s" % check["type"], case,
                     "check type %r resolved to %r" % (check["type"], type(resolved)))
    if recplugins.LOG:
        sub.fail("C20|reader|%s|extra-call|%s-while-loading-cid" % (case["fmt"], recplugins.LOG[0][0]), case,
                 "calls while the CID was loaded (no examples declared): %r" % (recplugins.LOG[:5],))
    del recplugins.LOG[:]
    folder = None
    cid_path = None
    if any(run.get("cid_via") == "path" for run in case["runs"]):
        import csv

        folder = tempfile.mkdtemp(prefix="c20-")
        cid_path = os.path.join(folder, "cid.csv")
        with open(cid_path, "w", encoding="utf-8", newline="") as f:
            csv.writer(f).writerows(cid_rows(case))
    try:
        outcomes = execute_runs(cutplace, cid, case["runs"], _mark, cid_path)
    finally:
        if folder:
            shutil.rmtree(folder, ignore_errors=True)
    logs = split_log(recplugins.LOG, len(case["runs"]))
    del recplugins.LOG[:]
    judge(sub, case, logs, outcomes)


# -- subprocess part: import_plugins(folder) on a generated plugin file ------------------------------------------------------
_DRIVER = '''import json
import logging
import sys
import warnings

warnings.filterwarnings("ignore")
sys.path.insert(0, sys.argv[1])
import cutplace
from cutplace import interface

logging.getLogger("cutplace").setLevel(logging.CRITICAL)


def mark(*what):
    sys.stdout.write("C20LOG " + json.dumps(["mark"] + list(what)) + "\\n")
    sys.stdout.flush()


%(execute_runs)s

with open(sys.argv[3], "r", encoding="utf-8") as case_file:
    case = json.load(case_file)
if case.get("how") == "user-code-after-first-cid":
    # the user's own module defines the classes after some CID has already been created in this process
    warm = interface.Cid()
    warm.read("warm", [["D", "Format", "Delimited"], ["F", "x"]])
    import importlib
    sys.path.insert(0, sys.argv[2])
    for module_name in case["modules"]:
        importlib.import_module(module_name)
else:
    interface.import_plugins(sys.argv[2])
    for folder in case.get("more_folders", []):
        interface.import_plugins(folder)
# whatever the interpreter's memory management does between importing the plugins and using them
import gc
gc.collect()
cid = interface.Cid()
cid.read("c20", case["cid_rows"])
resolved = {"fields": [[type(f).__name__, type(f).__module__] for f in cid.field_formats],
            "checks": [[type(cid.check_map[name]).__name__, type(cid.check_map[name]).__module__]
                       for name in cid.check_names]}
sys.stdout.write("C20RESOLVED " + json.dumps(resolved) + "\\n")
outcomes = execute_runs(cutplace, cid, case["runs"], mark)
sys.stdout.write("C20OUTCOMES " + json.dumps(outcomes) + "\\n")
'''


def check_plugin_case(sub, case):
    plugin = case["plugin"]
    folder = tempfile.mkdtemp(prefix="c20-")
    try:
        # what the folder is called says nothing about what is in it
        plugin_folder = os.path.join(folder, plugin.get("folder", "plugins"))
        os.mkdir(plugin_folder)
        more_folders = []
        if plugin["files"] == "two-folders":
            sources = {plugin["module"]: recplugins.plugin_source(plugin["field_stems"], [], plugin.get("style", "plain"))}
            second = os.path.join(folder, "more_plugins")
            os.mkdir(second)
            more_folders.append(second)
            with open(os.path.join(second, plugin["module"] + ".py"), "w", encoding="utf-8") as f:
                f.write(recplugins.plugin_source([], plugin["check_stems"], plugin.get("style", "plain")))
        elif plugin["files"] == 1:
            sources = {plugin["module"]: recplugins.plugin_source(plugin["field_stems"], plugin["check_stems"], plugin.get("style", "plain"))}
        else:
            sources = {plugin["module"]: recplugins.plugin_source(plugin["field_stems"], [], plugin.get("style", "plain")),
                       plugin["module"] + "_checks": recplugins.plugin_source([], plugin["check_stems"], plugin.get("style", "plain"))}
        for module_name, source in sources.items():
            with open(os.path.join(plugin_folder, module_name + ".py"), "w", encoding="utf-8") as f:
                f.write(source)
        driver_path = os.path.join(folder, "driver.py")
        with open(driver_path, "w", encoding="utf-8") as f:
            f.write(_DRIVER % {"execute_runs": inspect.getsource(execute_runs)})
        case_path = os.path.join(folder, "case.json")
        with open(case_path, "w", encoding="utf-8") as f:
            json.dump({"cid_rows": cid_rows(case), "runs": case["runs"], "modules": sorted(sources),
                       "how": plugin.get("how", "import_plugins"), "more_folders": more_folders}, f)
        env = dict(os.environ, PYTHONDONTWRITEBYTECODE="1", PYTHONHASHSEED="0")
        env.pop("PYTHONPATH", None)
        try:
            done = subprocess.run([sys.executable, "-W", "ignore", driver_path, repo.REPO, plugin_folder, case_path],
                                  stdout=subprocess.PIPE, stderr=subprocess.PIPE, env=env, cwd=folder, timeout=120)
        except subprocess.TimeoutExpired:
            sub.fail("C20|plugin|timeout", case, "plugin subprocess did not finish within 120 s")
            return
        out = done.stdout.decode("utf-8", "replace")
        log, resolved, outcomes = [], None, None
        for line in out.splitlines():
            if line.startswith("C20LOG "):
                log.append(json.loads(line[7:]))
            elif line.startswith("C20RESOLVED "):
                resolved = json.loads(line[12:])
            elif line.startswith("C20OUTCOMES "):
                outcomes = json.loads(line[12:])
        if done.returncode != 0 or resolved is None or outcomes is None:
            error_lines = [ln for ln in done.stderr.decode("utf-8", "replace").strip().splitlines() if ln.strip()]
            last = error_lines[-1] if error_lines else "exit code %d" % done.returncode
            sub.case(None, False, ["plugin:failed"])
            sub.fail("C20|plugin|import-or-load|%s" % norm_message(last), case,
                     "import_plugins + Cid.read + validation in a subprocess failed: %s" % "\n".join(error_lines[-6:]))
            return
        modules = set(sources)
        for field, (class_name, module_name) in zip(case["fields"], resolved["fields"]):
            if field["kind"] == "Rec":
                good = class_name == field["type"] + "FieldFormat" and module_name in modules
            else:
                good = class_name == field["kind"] + "FieldFormat" and module_name == "cutplace.fields"
            if not good:
                sub.fail("C20|plugin|resolve|field", case,
                         "field type %r resolved to %s.%s" % (field["type"], module_name, class_name))
        for check, (class_name, module_name) in zip(case["checks"], resolved["checks"]):
            if check["kind"] == "Rec":
                good = class_name == check["type"] + "Check" and module_name in modules
            else:
                good = class_name == "IsUniqueCheck" and module_name == "cutplace.checks"
            if not good:
                sub.fail("C20|plugin|resolve|check", case,
                         "check type %r resolved to %s.%s" % (check["type"], module_name, class_name))
        sub.cls("plugin:subprocess")
        sub.cls("plugin:files:%s" % plugin["files"])
        sub.cls("plugin:module:%s" % ("own-name" if plugin["module"] in ("myplugins", "c20_recording_plugins")
                                      else "name-of-a-loaded-module"))
        sub.cls("plugin:how:%s" % plugin.get("how", "import_plugins"))
        sub.cls("plugin:style:%s" % plugin.get("style", "plain"))
        judge(sub, case, split_log(log, len(case["runs"])), outcomes)
    finally:
        shutil.rmtree(folder, ignore_errors=True)


def run(ctx):
    ctx.hyp("protocol", cases, check_case, ctx.n(8000, 150000))
    ctx.hyp("plugins", lambda: cases(plugin=True), check_plugin_case, ctx.n(32, 320),
            workers=ctx.n(min(4, ctx.workers), min(8, ctx.workers)))


def replay(sub, case):
    check_case(sub, case)
