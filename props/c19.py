"""C19 - generated SQL DDL mirrors the CID."""
import json
import keyword
import os
import re
import sys
from decimal import Decimal

from hypothesis import strategies as st

from vlib.runner import norm_message

from cutplace import checks, fields, interface, ranges, sql

PROPERTY_ID = "C19"
RULE = (
    "Exhaustive: one Integer field whose rule 'lo...hi' takes both limits from the boundary set {+-(2^k + d)}, "
    "k in {7,8,15,16,31,32,63}, d in -2..1, plus 0, +-1 - all 1770 ordered pairs lo <= hi x the four dialects "
    "(thorough: also spelled as two items 'lo, hi'). Hypothesis: CIDs (delimited or fixed) of 1-6 fields, with or "
    "without IsUnique / DistinctCount checks over them, x dialect; "
    "names are dialect keywords in lower / upper / mixed case, near-keywords (keyword with a prefix or suffix) or "
    "plain identifiers; types Integer (closed rule of 1-2 items in decimal or hex, open rule, length only, neither), "
    "Decimal (no rule, closed rule of 1-2 items with 0-4 fractional digits, open rule), Text / Choice / Constant / "
    "Pattern / RegEx with every shape of length (none, exact, upper only, lower only, closed, two items) and "
    "DateTime; both empty flags. The statement is parsed back by an own parser (split at top-level commas, one regular "
    "expression per column) and compared with expectations computed by the generator: column per field in order, "
    "name quoted iff keyword, not null iff not allowed to be empty, integer type exists in the dialect and holds both "
    "limits (own capacity table), decimal digits, text length. A case is one (dialect, CID); it is non-trivial "
    "when an Integer limit lies within 2 of a type boundary or is negative, or when a name is a keyword; distinct by "
    "hash of (dialect, table, rows)."
    "Data formats Delimited / Fixed / Excel / ODS. The same fields (text-like ones with an empty value of their own) and checks are added by program (add_field_format / add_check): names, quoting, types and nullability must be those of the CID read from rows."
    "A factory created before the fields were added must write the same statement."
)
ASSUMPTIONS = [
    "the keyword set of a dialect is the union of the words recorded in vlib/sql_keywords.json (taken from the "
    "dialects at a known-good state), the words the running code lists (dialect.keywords) and 40 words every SQL "
    "dialect reserves (select, from, where, order, ...); membership is decided here by lower-casing the name, not by "
    "calling is_keyword",
    "capacity table: T-SQL bit/tinyint/smallint/int/bigint/decimal(p<=38)/money; DB2 smallint/integer/bigint/"
    "decimal(p<=31); Oracle int=number(38), number(p<=38, s); ANSI smallint/int/bigint of implementation-defined "
    "size (never judged), decimal(p) holds p digits",
    "neutral: column type names of text, date and decimal columns; the type of an Integer field with an open "
    "range (only that a statement is produced at all is demanded) or with a limit of more digits than any exact "
    "type of the dialect stores; total digits of an open Decimal rule; a length on a Choice/Constant/Pattern/RegEx "
    "column whose CID "
    "length has no upper limit; 'default' clauses; layout and letter case of the statement",
    "a field whose integer part is written as 0 may count 0 or 1 digits before the dot",
]
EXHAUSTIVE = True
EXHAUSTIVE_SCOPE = ("Integer rule 'lo...hi' with lo <= hi both from {+-(2^k+d): k in 7,8,15,16,31,32,63; d in -2..1} "
                    "+ {0, 1, -1} (1770 pairs) x 4 dialects")

DIALECT_NAMES = ["ANSI", "DB2", "Transact-SQL", "PL/SQL"]
_IDENTIFIER = re.compile(r"^[A-Za-z][A-Za-z0-9_]*$")
KEYWORDS = {}
USABLE_KEYWORDS = {}
# Reserved words recorded from the dialects at a known-good state (vlib/sql_keywords.json).  A word of that record
# must stay quoted even if the running code no longer lists it (e.g. a dialect that lost its own list and fell back
# to the ANSI one); words the running code adds are honoured too, so extending a list raises no alarm.
with open(os.path.join(os.path.dirname(os.path.dirname(os.path.abspath(__file__))), "vlib", "sql_keywords.json")) as _f:
    _RECORDED = json.load(_f)
# Words every SQL dialect reserves (SQL-92 core: statement and clause words, set and comparison operators); they are
# keywords of each dialect whatever its list in the code says, so a list entry lost to a typo is noticed.
CORE_RESERVED = ("select from where group order by having table create drop alter union null not and or in is like "
                 "between as on into values set distinct all any exists check default unique grant with to for of "
                 "insert update delete").split()
for _name in DIALECT_NAMES:
    _words = sorted(set(str(w) for w in sql.SQL_NAME_TO_DIALECT_MAP[_name].keywords) | set(_RECORDED.get(_name, []))
                    | set(CORE_RESERVED))
    KEYWORDS[_name] = frozenset(w.lower() for w in _words)
    USABLE_KEYWORDS[_name] = [w for w in _words if _IDENTIFIER.match(w)]

TYPE_BITS = (7, 8, 15, 16, 31, 32, 63)
BOUNDARY_SET = sorted(set([0, 1, -1] + [s * (2 ** k + d) for k in TYPE_BITS for d in (-2, -1, 0, 1) for s in (1, -1)]))


# -- reference model: what a column type of a dialect can store ----------------------
def _decimal_capacity(a, b, max_precision, default_precision):
    """Limits of decimal(a, b); None if there is no such type."""
    if a is None:
        if default_precision is None:
            return "neutral"
        a, b = default_precision, 0
    if b is None:
        b = 0
    if a < 1 or (max_precision is not None and a > max_precision) or b < 0 or b > a:
        return None
    top = 10 ** (a - b) - 1
    return (-top, top)


def int_column_capacity(dialect, type_name, a, b):
    """(lo, hi) the column type can store exactly, "neutral", or None when the dialect has no such type."""
    t = type_name.lower()
    no_args = a is None and b is None
    signed = {"smallint": 15, "int": 31, "integer": 31, "bigint": 63}
    if dialect == "Transact-SQL":
        if t == "bit":
            return (0, 1) if no_args else None
        if t == "tinyint":
            return (0, 255) if no_args else None
        if t in signed:
            return (-(2 ** signed[t]), 2 ** signed[t] - 1) if no_args else None
        if t in ("decimal", "dec", "numeric"):
            return _decimal_capacity(a, b, 38, 18)
        if t == "money":
            return (-922337203685477, 922337203685477) if no_args else None
        if t == "smallmoney":
            return (-214748, 214748) if no_args else None
        return None
    if dialect == "DB2":
        if t in signed:
            return (-(2 ** signed[t]), 2 ** signed[t] - 1) if no_args else None
        if t in ("decimal", "dec", "numeric", "num"):
            return _decimal_capacity(a, b, 31, 5)
        return None
    if dialect == "PL/SQL":
        if t in ("int", "integer", "smallint"):
            return (-(10 ** 38 - 1), 10 ** 38 - 1) if no_args else None
        if t in ("number", "decimal", "dec", "numeric"):
            return _decimal_capacity(a, b, 38, 38)
        return None
    if dialect == "ANSI":
        if t in signed:
            return "neutral" if no_args else None
        if t in ("decimal", "dec", "numeric"):
            return _decimal_capacity(a, b, None, None)
        return None
    raise ValueError("dialect %r" % dialect)


#: most decimal digits an exact numeric type of the dialect can store (None: the standard sets no maximum)
MAX_EXACT_DIGITS = {"ANSI": None, "DB2": 31, "Transact-SQL": 38, "PL/SQL": 38}


def near_type_boundary(value):
    return any(abs(abs(value) - 2 ** k) <= 2 for k in TYPE_BITS)


# -- own parser for the statement -----------------------------------------------------
_HEADER = re.compile(r"^\s*create\s+table\s+(\S+)\s*$", re.IGNORECASE)
_COLUMN = re.compile(
    r"""^\s*(?:"(?P<quoted>[^"]*)"|(?P<plain>[A-Za-z_][A-Za-z0-9_$#]*))
        \s+(?P<type>[A-Za-z][A-Za-z0-9_]*)
        (?:\s*\(\s*(?P<a>\d+)\s*(?:,\s*(?P<b>-?\d+)\s*)?\))?
        (?P<rest>.*)$""",
    re.VERBOSE | re.DOTALL,
)
_NOT_NULL = re.compile(r"\bnot\s+null\b", re.IGNORECASE)


def split_top_level(text):
    parts = []
    depth = 0
    in_quote = None
    current = ""
    for ch in text:
        if in_quote:
            current += ch
            if ch == in_quote:
                in_quote = None
            continue
        if ch in "\"'":
            in_quote = ch
        elif ch == "(":
            depth += 1
        elif ch == ")":
            depth -= 1
        elif ch == "," and depth == 0:
            parts.append(current)
            current = ""
            continue
        current += ch
    parts.append(current)
    return parts


def parse_create_table(statement):
    """(table, [column dict]) or raises ValueError."""
    start = statement.find("(")
    end = statement.rfind(")")
    if start < 0 or end < start:
        raise ValueError("no parenthesised column list")
    header = _HEADER.match(statement[:start])
    if not header:
        raise ValueError("statement does not start with 'create table <name>'")
    if statement[end + 1:].strip() not in ("", ";"):
        raise ValueError("text after the column list: %r" % statement[end + 1:])
    columns = []
    for part in split_top_level(statement[start + 1:end]):
        m = _COLUMN.match(part)
        if not m:
            raise ValueError("cannot parse column definition %r" % part.strip())
        rest = m.group("rest")
        default_at = re.search(r"\bdefault\b", rest, re.IGNORECASE)
        constraint_text = rest[:default_at.start()] if default_at else rest
        not_null = bool(_NOT_NULL.search(constraint_text))
        left_over = _NOT_NULL.sub("", constraint_text).strip()
        if left_over.lower() not in ("", "null"):
            raise ValueError("cannot parse %r in column definition %r" % (left_over, part.strip()))
        columns.append({
            "name": m.group("quoted") if m.group("quoted") is not None else m.group("plain"),
            "quoted": m.group("quoted") is not None,
            "type": m.group("type"),
            "a": None if m.group("a") is None else int(m.group("a")),
            "b": None if m.group("b") is None else int(m.group("b")),
            "not_null": not_null,
        })
    return header.group(1), columns


def type_text(column, normalised=False):
    text = column["type"].lower()
    if column["a"] is not None:
        a, b = ("#", "#") if normalised else (column["a"], column["b"])
        text += "(%s)" % a if column["b"] is None else "(%s, %s)" % (a, b)
    return text


# -- the oracle ---------------------------------------------------------------------
def _innermost_cutplace_frame(error):
    tb = error.__traceback__
    where = "?"
    while tb is not None:
        filename = tb.tb_frame.f_code.co_filename.replace("\\", "/")
        if "/cutplace/" in filename:
            where = "%s:%s" % (filename.rsplit("/", 1)[1], tb.tb_frame.f_code.co_name)
        tb = tb.tb_next
    return where


def cid_rows(case):
    rows = [["D", "Format", case["format"]]]
    for f in case["fields"]:
        rows.append(["F", f["name"], "", f["empty"], f["length"], f["type"], f["rule"]])
    rows.extend(list(row) for row in case.get("checks", []))
    return rows


def check_case(sub, case, sample=True):
    dialect_name = case["dialect"]
    fields = case["fields"]
    table = case.get("table", "t")
    keywords = KEYWORDS[dialect_name]
    rows = cid_rows(case)
    classes = ["dialect:" + dialect_name, "format:" + case["format"], "fields:%d" % len(fields)]
    nontrivial = False
    for f in fields:
        e = f["expect"]
        is_keyword = f["name"].lower() in keywords
        classes.append("type:" + f["type"])
        classes.append("empty:" + ("yes" if f["empty"].strip() else "no"))
        classes.append("name:" + (f.get("name_kind", "?") + ("/keyword" if is_keyword else "/no-keyword")))
        if is_keyword:
            nontrivial = True
        if e["kind"] == "int":
            classes.append("int:" + f.get("mode", "?"))
            if e["lo"] is not None and e["hi"] is not None:
                if e["lo"] < 0:
                    classes.append("int:negative-lower")
                    nontrivial = True
                if near_type_boundary(e["lo"]) or near_type_boundary(e["hi"]):
                    classes.append("int:near-boundary")
                    nontrivial = True
        elif e["kind"] == "dec":
            classes.append("dec:" + f.get("mode", "?"))
        elif e["kind"] == "text":
            classes.append("text-length:" + f.get("mode", "?"))
    sub.case((dialect_name, table, rows), nontrivial, classes,
             sample={"dialect": dialect_name, "table": table, "rows": rows} if sample else None)

    try:
        cid = interface.Cid()
        cid.read("cid", [list(r) for r in rows])
    except Exception as error:  # the generator only builds documented CIDs: loud, so that it gets repaired
        sub.fail("C19|cid-load|%s|%s" % (type(error).__name__, norm_message(error)), case,
                 "generated CID %r was not accepted: %s: %s" % (rows, type(error).__name__, error))
        return
    try:
        dialect = sql.SQL_NAME_TO_DIALECT_MAP[dialect_name]
        factory = sql.SqlFactory(cid, table, dialect)
        statement = factory.create_table_statement()
        again = factory.create_table_statement()
        if again != statement:
            sub.fail("C19|statement-changes-on-second-call|%s" % dialect_name, case,
                     "create_table_statement() called twice on one factory: first %r, then %r" % (statement, again))
    except Exception as error:
        sub.fail("C19|exception|%s|%s|%s" % (type(error).__name__, dialect_name, _innermost_cutplace_frame(error)),
                 case, "create_table_statement() for %r in dialect %s raised %s: %s" % (
                     rows[1:], dialect_name, type(error).__name__, error))
        return
    if not isinstance(statement, str):
        sub.fail("C19|columns|not-text|" + dialect_name, case, "statement is %r" % (statement,))
        return
    try:
        parsed_table, columns = parse_create_table(statement)
    except ValueError as error:
        sub.fail("C19|columns|unparsable|%s|%s" % (dialect_name, norm_message(error, 40)), case,
                 "statement %r: %s" % (statement, error))
        return
    if parsed_table != table:
        sub.fail("C19|columns|table-name|" + dialect_name, case, "table %r in %r, expected %r" % (
            parsed_table, statement, table))
    actual_names = [c["name"] for c in columns]
    expected_names = [f["name"] for f in fields]
    if actual_names != expected_names:
        kind = "count" if len(actual_names) != len(expected_names) else (
            "order" if sorted(actual_names) == sorted(expected_names) else "name")
        sub.fail("C19|columns|%s|%s" % (kind, dialect_name), case, "columns %r of %r, expected %r" % (
            actual_names, statement, expected_names))
        return

    for f, column in zip(fields, columns):
        e = f["expect"]
        shown = "field %r -> column %r (dialect %s)" % (
            [f["name"], f["empty"], f["length"], f["type"], f["rule"]], _column_text(column), dialect_name)
        # quoting
        sub.evaluations += 1
        is_keyword = f["name"].lower() in keywords
        if column["quoted"] != is_keyword:
            sub.fail("C19|quoting|%s|%s" % (dialect_name, "keyword-unquoted" if is_keyword else "quoted-no-keyword"),
                     case, shown + ": name is %sa keyword of the dialect but is %squoted" % (
                         "" if is_keyword else "not ", "" if column["quoted"] else "not "))
        # not null
        sub.evaluations += 1
        allowed_empty = bool(f["empty"].strip())
        if column["not_null"] != (not allowed_empty):
            sub.fail("C19|not-null|%s|%s" % (dialect_name, "missing" if not allowed_empty else "unexpected"), case,
                     shown + ": field is %sallowed to be empty but column is %s" % (
                         "" if allowed_empty else "not ", "not null" if column["not_null"] else "nullable"))
        # type
        sub.evaluations += 1
        if e["kind"] == "int":
            _judge_int(sub, case, dialect_name, f, column, shown)
        elif e["kind"] == "dec":
            _judge_decimal(sub, case, dialect_name, f, column, shown)
        elif e["kind"] == "text":
            _judge_text(sub, case, dialect_name, f, column, shown)
        else:
            sub.cls("neutral:date-type")
    _check_built_by_program(sub, case, cid, table, dialect, dialect_name, columns)


class _OwnRangeIntegerFieldFormat(fields.IntegerFieldFormat):
    def __init__(self, field_name, is_allowed_to_be_empty, length, rule, data_format):
        super().__init__(field_name, is_allowed_to_be_empty, length, "", data_format)
        self.valid_range = ranges.Range(rule)


def _check_built_by_program(sub, case, cid, table, dialect, dialect_name, columns):
    """The same fields put together by program (Cid.add_field_format with field formats built through their
    constructors, text-like ones with a value of their own to stand in for an empty cell): column names, quoting,
    types and nullability are the same as for the CID read from rows ('default' clauses are left open)."""
    built = interface.Cid()
    try:
        built.add_data_format_row(["Format", case["format"]])
        built.data_format.validate()
        # a factory that exists before the CID has its fields: what it writes is the CID at the time of writing
        early_factory = sql.SqlFactory(built, table, dialect)
        for number, (field, declared) in enumerate(zip(cid.field_formats, case["fields"])):
            arguments = [declared["name"], bool(declared["empty"].strip()), declared["length"], declared["rule"],
                         built.data_format]
            if type(field).__name__ in ("TextFieldFormat", "PatternFieldFormat"):
                arguments.append(["n/a", "", "?", None][number % 4])
            field_class = type(field)
            if (field_class is fields.IntegerFieldFormat and declared["rule"].strip() and not declared["length"].strip()
                    and case["format"] != "Fixed" and number % 2 == 0):
                # a field format of the application's own that sets its range itself, after the base class is done
                field_class = _OwnRangeIntegerFieldFormat
            built.add_field_format(field_class(*arguments))
        for row in case.get("checks", []):
            check_class = {"IsUnique": checks.IsUniqueCheck, "DistinctCount": checks.DistinctCountCheck}[row[2]]
            built.add_check(check_class(row[1], row[3], built.field_names))
        statement = sql.SqlFactory(built, table, dialect).create_table_statement()
        early_statement = early_factory.create_table_statement()
        if early_statement != statement:
            sub.fail("C19|built-by-program|early-factory-differs|%s" % dialect_name, case,
                     "a factory created before the fields were added writes %r, one created afterwards %r" % (
                         early_statement, statement))
            return
        _, built_columns = parse_create_table(statement)
    except Exception as error:
        sub.fail("C19|built-by-program|%s|%s" % (type(error).__name__, dialect_name), case,
                 "the same fields added by program: %s: %s" % (type(error).__name__, error))
        return
    sub.evaluations += 1

    def essence(column):
        return (column["name"], column["quoted"], column["not_null"], type_text(column))

    if [essence(c) for c in built_columns] != [essence(c) for c in columns]:
        sub.fail("C19|built-by-program|columns-differ|%s" % dialect_name, case,
                 "read from rows / the same fields added by program: %r" % (
                     [(_column_text(a), _column_text(b)) for a, b in zip(columns, built_columns)
                      if essence(a) != essence(b)] or [len(columns), len(built_columns)],))


def _column_text(column):
    name = '"%s"' % column["name"] if column["quoted"] else column["name"]
    return "%s %s%s" % (name, type_text(column), " not null" if column["not_null"] else "")


def _judge_int(sub, case, dialect_name, f, column, shown):
    e = f["expect"]
    lo, hi = e["lo"], e["hi"]
    if lo is None or hi is None:
        sub.cls("neutral:int-open-range")
        return
    widest = MAX_EXACT_DIGITS[dialect_name]
    if widest is not None and max(len(str(abs(lo))), len(str(abs(hi)))) > widest:
        sub.cls("neutral:int-beyond-any-type-of-dialect")  # no exact type of the dialect can hold it: nothing to demand
        return
    capacity = int_column_capacity(dialect_name, column["type"], column["a"], column["b"])
    sub.cls("int-col:%s:%s" % (dialect_name, type_text(column, True)))
    if capacity is None:
        sub.fail("C19|int-type-unknown|%s|%s" % (dialect_name, type_text(column, True)), case,
                 shown + ": %s has no exact numeric type %r" % (dialect_name, type_text(column)))
    elif capacity == "neutral":
        sub.cls("neutral:int-implementation-defined")
    elif lo < capacity[0] or hi > capacity[1]:
        side = "both" if lo < capacity[0] and hi > capacity[1] else ("lower" if lo < capacity[0] else "upper")
        sub.fail("C19|int-capacity|%s|%s|%s" % (dialect_name, type_text(column, True), side), case,
                 shown + ": %s stores %d...%d and cannot hold %s" % (
                     type_text(column), capacity[0], capacity[1],
                     " and ".join(str(v) for v in (lo, hi) if v < capacity[0] or v > capacity[1])))


def _judge_decimal(sub, case, dialect_name, f, column, shown):
    e = f["expect"]
    if e.get("open"):
        sub.cls("neutral:dec-open-range")
        return
    a, b = column["a"], column["b"]
    frac = e["frac"]
    totals = list(range(frac + e["int_min"], frac + e["int_max"] + 1))
    if a is None or (0 if b is None else b) != frac or a not in totals:
        sub.fail("C19|decimal-digits|" + dialect_name, case, shown + ": expected (%s total digits, %d fractional)" % (
            " or ".join(str(t) for t in totals), frac))


def _judge_text(sub, case, dialect_name, f, column, shown):
    e = f["expect"]
    maxlen = e["maxlen"]
    if maxlen is None:
        if column["a"] is None:
            return
        if not e["judge_nolen"]:
            sub.cls("neutral:text-length-from-rule")
            return
        sub.fail("C19|text-length|%s|invented" % dialect_name, case,
                 shown + ": the field has no upper length limit but the column is limited to %d" % column["a"])
    elif column["a"] != maxlen or column["b"] is not None:
        sub.fail("C19|text-length|%s|%s" % (dialect_name, "missing" if column["a"] is None else "different"), case,
                 shown + ": expected length %d" % maxlen)


# -- exhaustive boundary sweep ------------------------------------------------------
def sweep_case(dialect_name, lo, hi, index, spelling="range"):
    if spelling == "range":
        rule = "%d...%d" % (lo, hi)
    else:
        rule = "%d, %d" % (hi, lo) if index % 2 else "%d, %d" % (lo, hi)
    return {
        "dialect": dialect_name, "format": "Delimited", "table": "t",
        "fields": [{"name": "n", "name_kind": "plain", "empty": "X" if index % 3 == 0 else "", "length": "",
                    "type": "Integer", "rule": rule, "mode": "sweep-" + spelling,
                    "expect": {"kind": "int", "lo": lo, "hi": hi}}],
    }


def _sweep_pairs():
    for i, lo in enumerate(BOUNDARY_SET):
        for hi in BOUNDARY_SET[i:]:
            yield lo, hi


def _sweep_shard(args):
    from vlib.runner import Sub

    dialect_name, index, count, spellings = args
    sub = Sub("sweep")
    for number, (lo, hi) in enumerate(_sweep_pairs()):
        if number % count != index:
            continue
        for spelling in spellings:
            if spelling == "items" and lo == hi:
                continue
            check_case(sub, sweep_case(dialect_name, lo, hi, number, spelling), sample=(number % 449 == 0))
    return sub


# -- hypothesis: whole CIDs ---------------------------------------------------------
_SEPARATORS = ("...", ":", "…")


def _valid_name(name):
    return bool(_IDENTIFIER.match(name)) and not keyword.iskeyword(name)


@st.composite
def names(draw, dialect_name):
    kind = draw(st.sampled_from(["keyword", "keyword", "near", "plain"]))
    if kind == "plain":
        name = draw(st.from_regex(r"[A-Za-z][A-Za-z0-9_]{0,7}", fullmatch=True))
        return name, "plain"
    word = draw(st.one_of(st.sampled_from(USABLE_KEYWORDS[dialect_name]), st.sampled_from(CORE_RESERVED)))
    if kind == "near":
        how = draw(st.sampled_from(["suffix", "prefix", "cut", "double"]))
        if how == "suffix":
            word = word + draw(st.sampled_from(["_", "1", "s", "x", "_id"]))
        elif how == "prefix":
            word = draw(st.sampled_from(["x", "a_", "is"])) + word
        elif how == "cut" and len(word) > 2:
            word = word[:-1]
        else:
            word = word + word
    casing = draw(st.sampled_from(["lower", "upper", "capital", "mixed"]))
    if casing == "upper":
        word = word.upper()
    elif casing == "capital":
        word = word[0].upper() + word[1:]
    elif casing == "mixed":
        flips = draw(st.lists(st.booleans(), min_size=len(word), max_size=len(word)))
        word = "".join(c.upper() if flip else c for c, flip in zip(word, flips))
    return word, kind + "-" + casing


def _int_limits():
    return st.one_of(
        st.sampled_from(BOUNDARY_SET),
        st.integers(-300, 300),
        st.integers(-(2 ** 64), 2 ** 64),
        st.builds(lambda k, d, s: s * (10 ** k + d), st.integers(1, 20), st.integers(-1, 1), st.sampled_from([1, -1])),
    )


@st.composite
def _spell_limit(draw, value):
    if draw(st.integers(0, 4)) == 0:
        digits = "".join(c.upper() if draw(st.booleans()) else c for c in "%x" % abs(value))
        return ("-" if value < 0 else "") + draw(st.sampled_from(["0x", "0X"])) + digits
    return str(value)


@st.composite
def _spell_item(draw, lo, hi):
    blank = draw(st.sampled_from(["", "", " "]))
    if lo is not None and lo == hi and draw(st.booleans()):
        return draw(_spell_limit(lo))
    text = "" if lo is None else draw(_spell_limit(lo))
    text += blank + draw(st.sampled_from(_SEPARATORS)) + blank
    text += "" if hi is None else draw(_spell_limit(hi))
    return text


@st.composite
def integer_fields(draw, fmt):
    modes = ["rule-closed", "rule-closed", "rule-closed", "rule-open", "length"]
    if fmt != "Fixed":
        modes += ["length-open", "default"]
    mode = draw(st.sampled_from(modes))
    length = ""
    rule = ""
    if mode in ("rule-closed", "rule-open"):
        a = draw(_int_limits())
        b = draw(_int_limits())
        lo, hi = min(a, b), max(a, b)
        items = [(lo, hi)]
        if hi > lo and draw(st.booleans()):
            m1 = draw(st.one_of(st.integers(lo, hi - 1), st.just(lo), st.just(hi - 1)))
            m2 = draw(st.one_of(st.integers(m1 + 1, hi), st.just(m1 + 1), st.just(hi)))
            items = [(lo, m1), (m2, hi)]
        widest = max(len(str(v)) for item in items for v in item)
        if mode == "rule-open":
            side = draw(st.sampled_from(["lower", "upper", "both"] if len(items) == 2 else ["lower", "upper"]))
            if side in ("lower", "both"):
                items[0] = (None, items[0][1])
                lo = None
            if side in ("upper", "both"):
                items[-1] = (items[-1][0], None)
                hi = None
        if len(items) == 2 and draw(st.booleans()):
            items.reverse()
        rule = draw(st.sampled_from([", ", ","])).join([draw(_spell_item(i[0], i[1])) for i in items])
        if fmt == "Fixed":
            length = str(widest + draw(st.integers(0, 3)))
    elif mode == "length":
        n = draw(st.one_of(st.integers(1, 6), st.integers(1, 40)))
        if fmt == "Fixed":
            length = str(n)
        else:
            length = draw(st.sampled_from(["%d", "...%d", "1...%d", "0:%d"])) % n
            if draw(st.integers(0, 3)) == 0 and n > 2:
                length = "%d...%d" % (draw(st.integers(2, n)), n)
        lo, hi = (0, 9) if n == 1 else (-(10 ** (n - 1) - 1), 10 ** n - 1)
    elif mode == "length-open":
        length = "%d..." % draw(st.integers(0, 5))
        lo, hi = None, None
    else:
        lo, hi = -(2 ** 31), 2 ** 31 - 1
    return {"length": length, "type": "Integer", "rule": rule, "mode": mode,
            "expect": {"kind": "int", "lo": lo, "hi": hi}}


@st.composite
def _decimal_limit(draw):
    int_part = draw(st.one_of(st.just(0), st.integers(0, 12), st.integers(0, 10 ** 12),
                              st.builds(lambda k, d: 10 ** k + d, st.integers(1, 18), st.integers(-1, 0))))
    frac_digits = draw(st.integers(0, 4))
    frac = draw(st.integers(0, 10 ** frac_digits - 1)) if frac_digits else 0
    negative = draw(st.integers(0, 3)) == 0
    text = str(int_part) + (".%0*d" % (frac_digits, frac) if frac_digits else "")
    if negative and (int_part or frac):
        text = "-" + text
    return text


@st.composite
def decimal_fields(draw, fmt):
    mode = draw(st.sampled_from(["default", "rule-closed", "rule-closed", "rule-closed", "rule-open"]))
    length = ""
    if fmt == "Fixed":
        length = str(draw(st.integers(25, 40)))
    if mode == "default":
        return {"length": length, "type": "Decimal", "rule": "", "mode": mode,
                "expect": {"kind": "dec", "frac": 12, "int_min": 19, "int_max": 19}}
    count = draw(st.sampled_from([1, 2, 2, 4]))
    texts = {}
    for _ in range(count):
        text = draw(_decimal_limit())
        texts.setdefault(Decimal(text), text)  # equal values written differently: keep the first
    ordered = [texts[v] for v in sorted(texts)]
    if len(ordered) == 3:
        ordered = ordered[:2]
    if len(ordered) == 1:
        items = [(ordered[0], ordered[0])]
    else:
        items = [(ordered[i], ordered[i + 1]) for i in range(0, len(ordered), 2)]
    written = [t for item in items for t in item]
    expect = {"kind": "dec", "frac": 0, "int_min": 0, "int_max": 0}
    for text in written:
        digits = text.lstrip("-")
        int_text, _, frac_text = digits.partition(".")
        expect["frac"] = max(expect["frac"], len(frac_text))
        expect["int_min"] = max(expect["int_min"], 0 if int_text == "0" else len(int_text))
        expect["int_max"] = max(expect["int_max"], len(int_text))
    if mode == "rule-open":
        if draw(st.booleans()):
            items[0] = (None, items[0][1])
        else:
            items[-1] = (items[-1][0], None)
        expect = {"kind": "dec", "open": True}
    parts = []
    for lo, hi in items:
        sep = draw(st.sampled_from(_SEPARATORS))
        if lo is not None and lo == hi and draw(st.booleans()):
            parts.append(lo)
        else:
            parts.append(("" if lo is None else lo) + sep + ("" if hi is None else hi))
    if len(parts) == 2 and draw(st.booleans()):
        parts.reverse()
    return {"length": length, "type": "Decimal", "rule": ", ".join(parts), "mode": mode, "expect": expect}


_TEXT_SIZE_BOUNDARIES = [254, 255, 256, 1999, 2000, 2001, 3999, 4000, 4001, 7999, 8000, 8001, 32671, 32672, 32673, 32766,
                         32767, 65534, 65535, 65536, 1048576, 2147483647]


@st.composite
def _text_length(draw, fmt, must_include=None):
    """(length text, upper limit or None, mode); ``must_include`` is a length the declaration has to admit."""
    if fmt == "Fixed":
        n = must_include if must_include is not None else draw(st.integers(1, 30))
        return str(n), n, "exact"
    mode = draw(st.sampled_from(["none", "exact", "upper", "lower", "closed", "two-items", "two-items-open"]))
    c = must_include
    a = draw(st.integers(0, 20)) if c is None else draw(st.integers(0, c))
    # upper limits also around the sizes at which databases switch types or refuse a plain varchar(n)
    b = a + draw(st.one_of(st.integers(0, 5), st.integers(0, 4000), st.sampled_from(_TEXT_SIZE_BOUNDARIES))) \
        if c is None else c + draw(st.integers(0, 50))
    sep = draw(st.sampled_from(_SEPARATORS))
    if mode == "none":
        return "", None, mode
    if mode == "exact":
        n = b if c is None else c
        return str(n), n, mode
    if mode == "upper":
        return sep + str(b), b, mode
    if mode == "lower":
        return str(a) + sep, None, mode
    if mode == "closed":
        return str(a) + sep + str(b), b, mode
    c2 = b + 1 + draw(st.integers(0, 10))
    d = c2 + draw(st.integers(0, 100))
    if mode == "two-items":
        items = [str(a) + sep + str(b), str(c2) if c2 == d else str(c2) + sep + str(d)]
        upper = d
    else:
        items = [str(a) + sep + str(b), str(c2) + sep]
        upper = None
    if draw(st.booleans()):
        items.reverse()
    return ", ".join(items), upper, mode


@st.composite
def text_fields(draw, fmt, empty):
    kind = draw(st.sampled_from(["Text", "Text", "", "Choice", "Constant", "Pattern", "RegEx"]))
    must_include = None
    rule = ""
    if kind == "Choice":
        rule = draw(st.sampled_from(["red, green, blue", "a,b", "\"x y\", z", "yes"]))
    elif kind == "Constant" and empty and fmt == "Fixed":
        kind = "Text"  # a constant that may be empty has the empty rule and length 0, which fixed format excludes
    elif kind == "Constant":
        if empty:
            rule = ""  # an empty constant must be allowed to be empty and vice versa
            must_include = 0
        else:
            rule = draw(st.sampled_from(["abc", "\"a b\"", "x", "12345"]))
            must_include = len(rule.strip('"'))
    elif kind == "Pattern":
        rule = draw(st.sampled_from(["*", "a?c*", "[a-c]*"]))
    elif kind == "RegEx":
        rule = draw(st.sampled_from([".*", "a.+", "[0-9]{2,5}x?"]))
    elif draw(st.integers(0, 5)) == 0:
        rule = "32..."  # Text rules are documented as not yet used
    length, upper, mode = draw(_text_length(fmt, must_include))
    return {"length": length, "type": kind, "rule": rule, "mode": mode,
            "expect": {"kind": "text", "maxlen": upper, "judge_nolen": kind in ("Text", "")}}


@st.composite
def cid_cases(draw):
    dialect_name = draw(st.sampled_from(DIALECT_NAMES))
    # what the data are stored in says nothing about the table they go to
    fmt = draw(st.sampled_from(["Delimited", "Delimited", "Fixed", "Excel", "ODS"]))
    used = set()
    fields = []
    for index in range(draw(st.integers(1, 6))):
        name, name_kind = draw(names(dialect_name))
        if not _valid_name(name) or name.lower() in used:
            name, name_kind = "f%d_%s" % (index, name if _IDENTIFIER.match(name) else "x"), "made-unique"
            while name.lower() in used:
                name += "_"
        used.add(name.lower())
        if fields and draw(st.integers(0, 5)) == 0:
            # a name that differs from an earlier one only in the case of its letters is another name
            twin = fields[draw(st.integers(0, len(fields) - 1))]["name"]
            variant = twin.swapcase() if twin.swapcase() != twin else twin
            if variant != twin and _valid_name(variant) and variant not in [f["name"] for f in fields]:
                name, name_kind = variant, "case-twin"
        empty = draw(st.sampled_from(["", "", "X", "x"]))
        what = draw(st.sampled_from(["int", "int", "int", "dec", "dec", "text", "text", "date"]))
        if what == "int":
            field = draw(integer_fields(fmt))
        elif what == "dec":
            field = draw(decimal_fields(fmt))
        elif what == "text":
            field = draw(text_fields(fmt, bool(empty)))
        else:
            rule = draw(st.sampled_from(["YYYY-MM-DD", "DD.MM.YYYY hh:mm:ss", "hh:mm", "DD.MM.YY"]))
            field = {"length": str(len(rule)) if fmt == "Fixed" else draw(st.sampled_from(["", "...%d" % len(rule)])),
                     "type": "DateTime", "rule": rule, "mode": "date", "expect": {"kind": "date"}}
        field.update({"name": name, "name_kind": name_kind, "empty": empty})
        fields.append(field)
    table = draw(st.sampled_from(["t", "customers", "Some_Table1"]))
    # whole-file checks say nothing about single columns: with or without them the statement is the same
    checks = []
    if draw(st.booleans()):
        keys = draw(st.lists(st.sampled_from([f["name"] for f in fields]), min_size=1, max_size=3, unique=True))
        checks.append(["C", "keys are unique", "IsUnique", ", ".join(keys)])
    if draw(st.integers(0, 2)) == 0:
        checks.append(["C", "few values", "DistinctCount", "%s <= %d" % (
            draw(st.sampled_from([f["name"] for f in fields])), draw(st.integers(1, 9)))])
    if checks and draw(st.booleans()):
        checks.reverse()
    return {"dialect": dialect_name, "format": fmt, "table": table, "fields": fields, "checks": checks}


def _one(dialect_name, name, empty, length, type_name, rule, expect, fmt="Delimited", mode="corpus"):
    return {"dialect": dialect_name, "format": fmt, "table": "t",
            "fields": [{"name": name, "name_kind": "corpus", "empty": empty, "length": length, "type": type_name,
                        "rule": rule, "mode": mode, "expect": expect}]}


def _corpus():
    minimal = []
    documented = []
    for d in DIALECT_NAMES:
        # one-field cases at the rungs of the type ladders (kept first so that a saved replay case is a small one)
        for lo, hi in ((-1, 0), (0, 255), (0, 256), (-128, 127), (0, 2 ** 15), (-(2 ** 15) - 1, 0), (0, 2 ** 31),
                       (0, 2 ** 63), (-(2 ** 63) - 1, 0), (0, 10 ** 19), (-(10 ** 19), 0)):
            minimal.append(_one(d, "n", "", "", "Integer", "%d...%d" % (lo, hi), {"kind": "int", "lo": lo, "hi": hi},
                                mode="rule-closed"))
        minimal.append(_one(d, "Select", "X", "", "Integer", "-128...127", {"kind": "int", "lo": -128, "hi": 127}))
        minimal.append(_one(d, "id", "", "1...5", "Integer", "1...99999", {"kind": "int", "lo": 1, "hi": 99999}))
        minimal.append(_one(d, "weight", "", "", "Integer", "0...", {"kind": "int", "lo": 0, "hi": None},
                            mode="rule-open"))
        minimal.append(_one(d, "n", "", "", "Integer", "", {"kind": "int", "lo": -(2 ** 31), "hi": 2 ** 31 - 1},
                            mode="default"))
        # the example fields of docs/writing-an-icd.rst and tests/test_sql.py
        documented.append({"dialect": d, "format": "Delimited", "table": "customers", "fields": [
            dict(name="branch_id", name_kind="corpus", empty="", length="", type="RegEx", rule="", mode="none",
                 expect={"kind": "text", "maxlen": None, "judge_nolen": False}),
            dict(name="customer_id", name_kind="corpus", empty="", length="", type="Integer", rule="0...99999",
                 mode="rule-closed", expect={"kind": "int", "lo": 0, "hi": 99999}),
            dict(name="first_name", name_kind="corpus", empty="X", length="", type="Text", rule="", mode="none",
                 expect={"kind": "text", "maxlen": None, "judge_nolen": True}),
            dict(name="surname", name_kind="corpus", empty="", length="1...60", type="Text", rule="", mode="closed",
                 expect={"kind": "text", "maxlen": 60, "judge_nolen": True}),
            dict(name="date_of_birth", name_kind="corpus", empty="", length="", type="DateTime", rule="DD.MM.YYYY",
                 mode="date", expect={"kind": "date"}),
            dict(name="latitude", name_kind="corpus", empty="", length="", type="Decimal", rule="", mode="default",
                 expect={"kind": "dec", "frac": 12, "int_min": 19, "int_max": 19}),
            dict(name="size", name_kind="corpus", empty="", length="", type="Decimal", rule="1...7.33, 8.4...183",
                 mode="rule-closed", expect={"kind": "dec", "frac": 2, "int_min": 3, "int_max": 3}),
            dict(name="percentage", name_kind="corpus", empty="x", length="", type="Decimal", rule="0...100.00",
                 mode="rule-closed", expect={"kind": "dec", "frac": 2, "int_min": 3, "int_max": 3}),
        ]})
    return minimal + documented


CORPUS = _corpus()


def run(ctx):
    sub = ctx.sub("corpus")
    for case in CORPUS:
        check_case(sub, case)
    ctx.merge(sub)
    spellings = ("range",) if ctx.quick else ("range", "items")
    shards = max(1, ctx.workers // 4)
    ctx.par(_sweep_shard, [(d, i, shards, spellings) for d in DIALECT_NAMES for i in range(shards)])
    ctx.hyp("cids", cid_cases, check_case, ctx.n(4000, 120000))


def replay(sub, case):
    check_case(sub, case)


if __name__ == "__main__":  # pragma: no cover
    sys.exit("run through ./check C19")
