"""C09 - CIDs are accepted iff structurally sound; rejections name the offending row.

A case is a JSON dict describing one *valid* CID plus a rewrite program:

    {"kind": "delimited" | "delimited-de" | "fixed" | "excel" | "ods", "format": "delimited" | "fixed" | ...,
     "rows": [[cell, ...], ...], "kinds": ["format" | "prop" | "field" | "check" | "comment" | "empty", ...],
     "bad_examples": [text or None per field row], "expect": {"fields": [[name, class, empty, rule], ...],
     "checks": [[description, class, rule], ...], "attrs": {data format attribute: value}},
     "ops": [{"kind": rewrite kind, "picks": [int, ...], "texts": [str, ...]}, ...], "salt": int, "csv": bool,
     "mode": "rewrites" | "defects" | "both", "all_variants": bool}

``check_case`` (a) loads the CID, compares it with what the generator declared, applies the rewrite program and
compares the rewritten CID with the unrewritten one; (b) applies every catalogue defect at every applicable row of
the (rewritten) valid CID, one defect at a time, and judges the outcome.  ``"mode"`` selects what is judged:
``"rewrites"`` = (a) only, ``"defects"`` = (b) on the rewritten CID (the rewrite itself is not judged there), ``"both"``
(seed CIDs).  Everything is deterministic given the case (the rewrite program is interpreted from ``picks``), so a
saved case replays without Hypothesis.
"""
import codecs
import csv
import io
import keyword
import re

from hypothesis import strategies as st

from vlib import gen_fields, model_fields
from vlib.runner import norm_message

from cutplace import errors, interface

PROPERTY_ID = "C09"
RULE = (
    "Hypothesis: valid CIDs as lists of row lists - format kinds delimited (./, and ,/.), fixed, excel, ods with "
    "documented property rows (encoding, line delimiter, item delimiter, quote character, quoting, escape character, "
    "decimal and thousands separator, header, sheet, allowed characters), 1..6 fields of all 8 types from "
    "vlib/gen_fields.py (optionally with an example the reference model accepts), 0..3 checks (IsUnique over 1..3 "
    "declared fields, DistinctCount 'field <op> n') - loaded with Cid.read(name, rows) and, when no cell holds a line "
    "break, with interface.create_cid_from_string(csv text); the loaded CID must show the generated field names in "
    "order, classes, empty flags, rules, check names/classes/rules and data format attributes. Part 'rewrites': 1..5 "
    "meaning-preserving rewrites composed at random (comment rows with empty first cell, empty rows, trailing cells "
    "beyond column 3/7/4, dropped trailing empty cells of field rows, row markers in either case with blanks, "
    "property/format names and symbolic values in any case, blanks around field name/mark/type/rule, x/X, property rows moved behind fields or checks (only properties no field consults while being declared), permuted "
    "property rows): must stay accepted with identical field_names, (class, empty flag, str(length), rule) per "
    "field, check_names with (class, rule) and data format attributes. Part 'defects': every entry of a catalogue of "
    "56 structural defects applied alone at every applicable row of a valid CID decorated with 0..4 such rewrites: "
    "must raise InterfaceError whose text names that row as (R<n>C<m>) first; defects that only show when the CID is "
    "completed (no fields, no data format, data format after the fields, contradictory properties) are judged by "
    "exception class only; settings whose acceptance is undocumented (Integer with length 0, bad value for the "
    "undocumented 'skip initial space', empty item in a Decimal rule, DateTime place holder used twice) may be "
    "accepted but a rejection must have that form. Any other exception type is a discrepancy. Exhaustive part: every "
    "variant of every catalogue entry at every applicable row of 10 fixed seed CIDs (5 format kinds, plain and with "
    "comment/empty rows). A case is non-trivial when it has >= 2 rows of one kind (a defect lands on a row other than "
    "the first of its kind) or >= 2 rewrites; distinct by hash of rows + rewrite program."
    "Check rows with an empty rule and a valid rule in the cell behind; DistinctCount rules that cannot be evaluated for ten different reasons."
    "CIDs with line breaks in cells also go through create_cid_from_string; one seed field has an example with CR LF."
)
ASSUMPTIONS = [
    "neutral, never judged: a check between field rows naming only earlier fields; overlapping range items; 'csv' as "
    "format name; dotted field types; field/check type names in another case; soft keywords as field names; blank-only "
    "first cells, empty marks or descriptions; blanks around property names and values; trailing comma in an IsUnique "
    "rule; DistinctCount expressions that evaluate to a number; header/decimal/thousands separator for fixed data",
    "only the row of a rejection is judged (the first (R<n>C<m>) in str(error)), never the cell",
    "rule text given to DistinctCount is confined to names derived from declared fields, digits, comparison and "
    "arithmetic operators except **, brackets, quotes and blanks (the class evaluates it with eval()); malformed "
    "RegEx rules contain no nested quantifiers",
    "examples and rejected examples are chosen by vlib/model_fields.verdict (must-accept / must-reject only)",
    "third-party behaviour trusted: csv (for the text rendering of a CID), codecs.lookup (encoding names are compared "
    "by codec), tokenize, re",
]
EXHAUSTIVE = True
EXHAUSTIVE_SCOPE = ("every variant of the 56 catalogue defects at every applicable row of 5 fixed seed CIDs (one per "
                    "format kind, all 8 field types, both check types), plain and decorated with comment rows")

_LOCATION_REGEX = re.compile(r"\(R([0-9]+)C([0-9]+)\)")
_NAME_REGEX = re.compile(r"[A-Za-z_][A-Za-z0-9_]*")
WIDTHS = {"format": 3, "prop": 3, "field": 7, "check": 4}
ROW_KINDS = ("format", "prop", "field", "check", "comment", "empty")


# ---------------------------------------------------------------------------------------------------------------
# documented data format settings (taken from docs/writing-an-icd.rst)
# ---------------------------------------------------------------------------------------------------------------
_ENCODINGS = ["utf-8", "UTF-8", "cp1252", "CP1252", "ascii", "ASCII", "latin-1", "iso-8859-15", "CP850"]
_LINE_DELIMITERS = {"lf": "\n", "cr": "\r", "crlf": "\r\n", "any": "any"}
_ITEM_DELIMITERS = [(";", ";"), ("|", "|"), ('","', ","), ("44", ","), ("0x2c", ","), ("Tab", "\t"), ('"\\t"', "\t"),
                    ("59", ";"), ('";"', ";"), (":", ":")]
_QUOTINGS = {"all": csv.QUOTE_ALL, "minimal": csv.QUOTE_MINIMAL}
_ALLOWED = [(None, None), (None, None), (None, None), ("32...", [[32, None]]), ("0...", [[0, None]]),
            ("Tab, 32...", [[9, 9], [32, None]])]
# properties whose documented values are symbolic names (any case)
_SYMBOLIC_VALUE_PROPERTIES = ("line delimiter", "quoting", "encoding")

INAPPLICABLE = {
    "delimited": [("Sheet", "2")],
    "fixed": [("Escape character", '"'), ("Item delimiter", ";"), ("Quote character", "'"), ("Quoting", "all"),
              ("Sheet", "2")],
    "excel": [("Escape character", '"'), ("Item delimiter", ";"), ("Line delimiter", "LF"), ("Quote character", "'"),
              ("Quoting", "all")],
}
INAPPLICABLE["ods"] = INAPPLICABLE["excel"]
UNKNOWN_PROPERTIES = ["no such property", "foo", "delimiter", "separator", "headers", "item", "Item delimiter x",
                      "sheets", "quote", "line", "is valid"]
_DOCUMENTED_PROPERTIES = ("allowed characters", "decimal separator", "encoding", "escape character", "format", "header",
                          "item delimiter", "line delimiter", "quote character", "quoting", "sheet",
                          "thousands separator")


def _introspected_names():
    """Names the code under test knows internally although no document gives them a meaning: every attribute of a data
    format object (instance, class, inherited) read as a property name, and every field format / check class that is
    not one of the documented types read as a type name.  All of them are unknown to the user, so a row using one
    must be rejected like any other unknown name."""
    from cutplace import checks, data, fields

    properties, field_types, check_types = set(), set(), set()
    # property keys the code declares as such (KEY_* constants) are supported even where the documents are silent
    declared = set(_DOCUMENTED_PROPERTIES)
    declared.update(str(getattr(data, name)).replace("_", " ").lower() for name in dir(data) if name.startswith("KEY_"))
    for format_name in ("delimited", "fixed", "excel", "ods"):
        for attribute in dir(data.DataFormat(format_name)):
            if attribute.startswith("_"):
                for name in (attribute[1:], attribute[1:].replace("_", " ").strip(), attribute[1:].upper()):
                    if name.strip() and name.replace("_", " ").strip().lower() not in declared:
                        properties.add(name)
    for module, suffix, documented, found in (
            (fields, "FieldFormat", ("Choice", "Constant", "DateTime", "Decimal", "Integer", "Pattern", "RegEx", "Text"),
             field_types),
            (checks, "Check", ("IsUnique", "DistinctCount"), check_types)):
        for name in dir(module):
            value = getattr(module, name)
            if isinstance(value, type) and name.endswith(suffix) and name[:-len(suffix)] not in documented:
                if name[:-len(suffix)]:
                    found.add(name[:-len(suffix)])
                found.add(name)
    return sorted(properties), sorted(field_types), sorted(check_types)


_INTROSPECTED = _introspected_names()
UNKNOWN_PROPERTIES += [name for name in _INTROSPECTED[0] if name not in UNKNOWN_PROPERTIES]
_BAD_INT = ["-1", "abc", "1.5", "", "one", "1 2"]
BAD_VALUES = {
    "delimited": {
        "Encoding": ["no-such-codec", "utf-99", ""],
        "Header": _BAD_INT,
        "Line delimiter": ["newline", "", "lfcr", "unix"],
        "Item delimiter": ["ab", "", "tabx", "1.5", "-1", '"ab"'],
        "Quote character": ["a", "ab", "0", " "],
        "Escape character": ["a", "ab", "/"],
        "Quoting": ["always", "", "yes", "1"],
        "Decimal separator": [";", "a", "..", "dot"],
        "Thousands separator": [";", "a", ",,", "comma"],
        "Allowed characters": ["5...1", "abc", '"ab"', "1...2...3", "x...y"],
    },
    "fixed": {
        "Encoding": ["no-such-codec", "utf-99", ""],
        "Line delimiter": ["newline", "", "lfcr", "unix"],
        "Allowed characters": ["5...1", "abc", '"ab"', "1...2...3", "x...y"],
    },
    "excel": {"Header": _BAD_INT, "Sheet": _BAD_INT + ["0"]},
}
BAD_VALUES["ods"] = BAD_VALUES["excel"]
# acceptance undocumented (the property itself is): only the form of a rejection is judged
FORM_ONLY_VALUES = {"delimited": {"Skip initial space": ["maybe", "yes", "1", ""]}}
PROPS_FOR_INSERT = {
    "delimited": [("Encoding", "utf-8"), ("Header", "1"), ("Line delimiter", "LF")],
    "fixed": [("Encoding", "utf-8"), ("Line delimiter", "LF")],
    "excel": [("Header", "1"), ("Sheet", "2")],
    "ods": [("Header", "1"), ("Sheet", "2")],
}
FORMAT_NAMES = {"delimited": "Delimited", "fixed": "Fixed", "excel": "Excel", "ods": "ODS"}

# -- pools of the field row defects ---------------------------------------------------------------------------------
NAME_EMPTY = ["", "   "]
NAME_DIGIT_FIRST = ["1abc", "9", "0_x", "3rd", " 1abc", "9 "]
NAME_UNDERSCORE_FIRST = ["_abc", "_", "_1"]
NAME_SPECIAL = ["na-me", "na me", "a.b", "a%", "a$b", "?", "a,b", "a\tb", "a!", "%"]
NAME_NON_ASCII = ["n\xe4me", "\xf1", "na\xefve", "a٣", "名", "\xe4bc", "a\xdf", " n\xe4me ", "\xf1 "]
NAME_KEYWORD = ["class", "for", "None", "lambda", "import", "True", "while", "def", "in", "is",
                # surrounding blanks do not change a name (they are a meaning-preserving rewrite), so they must not
                # rescue a defective one either
                " class", "if ", "  lambda  ", "None   ", " True "]
BAD_EMPTY_MARK = ["Y", "yes", "xx", "1", "-", "no", "X X", "*", "true"]
TYPE_UNKNOWN = ["NoSuchType", "Number", "Str", "Int", "Date", "Bool", "fields.NoSuchType", "Regexp"]
TYPE_MALFORMED = ["Inte ger", "1nteger", "Integer!", "Integer.", "..", ".Integer", "Int-eger", "Integer(",
                  "Inte'ger", "Text,Integer", "Integer)", "fields..Integer"]
LENGTH_NON_NUMERIC = ["abc", "x...y", "1.5", "5 6", "1...2...3", "ten", "1...y"]
LENGTH_REVERSED = ["5...1", "10...2", "3:1"]
LENGTH_NEGATIVE = ["-1", "-1...", "...-1", "-3...5", "-5...-2"]
FIXED_RANGE = ["1...5", "3...", "...4", "2, 4", "1:3"]
INTEGER_LENGTH_0 = ["0", "0...0", "...0"]
BAD_RULES = {
    "Integer": ["abc", "5...1", "1...2...3", "1.5...2", "(", "...", "1 2", "1...x", '"ab"'],
    "Decimal": ["abc", "5.5...1.1", "1...2...3", "...", "1 2", "(", "1.5...x"],
    "Choice": ["a,,b", ",a", "a b", '"a', '"a" "b"', "a,,", "a;b"],
    "Constant": ['"a" "b"', "a b", "1 2", '"a", "b"', "a,"],
    "RegEx": ["(", "[a", "*a", "a{2,1}", "(?P<n>a)(?P<n>b)", "\\", ")", "a(b", "(?z)a", "+"],
}
# acceptance undocumented; a rejection must still be an InterfaceError naming the row
DECIMAL_EMPTY_ITEM = [",1", ", 1...2", ",", ",1.5, 3"]
DATETIME_DUPLICATE = [("DD.DD", "01.01"), ("hh:hh", "10:10"), ("YYYY-YYYY", "2000-2000"), ("MM/DD/MM", "01/02/01")]
CHECK_TYPE_UNKNOWN = ["NoSuchCheck", "Unique", "Distinct", "IsUniqueCheck", "Count", "Is Unique"]
TYPE_UNKNOWN += [name for name in _INTROSPECTED[1] if name not in TYPE_UNKNOWN]
CHECK_TYPE_UNKNOWN += [name for name in _INTROSPECTED[2] if name not in CHECK_TYPE_UNKNOWN]
MARKERS_UNKNOWN = ["x", "dd", "field", "#", "1", "\xe9", "FD", "d f", "check", "-"]
COMMENT_TEXTS = ["", "D", "F", "C", "Format", "x", "X", "\xe4\xf6\xfc", '"', ",", "  ", "1...5", "Name", "Example",
                 "Empty", "Length", "Type", "Rule", "a comment", "IsUnique", "delimited", "中", "'", "0", "-"]


# ---------------------------------------------------------------------------------------------------------------
# small helpers
# ---------------------------------------------------------------------------------------------------------------
class Tape(object):
    """Deterministic source of choices for the rewrite program."""

    def __init__(self, picks):
        self.picks = [int(p) for p in picks] or [0]
        self.index = 0

    def next(self, n):
        value = self.picks[self.index % len(self.picks)] + self.index // len(self.picks)
        self.index += 1
        return value % n if n > 0 else 0


def _case_variant(text, pick):
    options = [text.lower(), text.upper(), text.capitalize(), text.swapcase(), text.title(),
               "".join(c.upper() if i % 2 else c.lower() for i, c in enumerate(text))]
    return options[pick % len(options)]


def _pad(cells, width):
    cells = list(cells)
    return cells + [""] * (width - len(cells))


def _tagged(case):
    return [[kind, list(cells)] for kind, cells in zip(case["kinds"], case["rows"])]


def _plain(tagged):
    return [list(cells) for _, cells in tagged]


def _has_line_break(rows):
    """Cells the csv text of a CID cannot hold: a NUL.  (Line breaks inside cells are quoted and come back as they are.)"""
    return any("\x00" in cell for row in rows for cell in row)


def csv_text(rows):
    out = io.StringIO()
    writer = csv.writer(out, lineterminator="\n")
    for row in rows:
        writer.writerow(row)
    return out.getvalue()


# ---------------------------------------------------------------------------------------------------------------
# generator of valid CIDs
# ---------------------------------------------------------------------------------------------------------------
_DESCRIPTION_WORDS = ["customer", "must", "be", "unique", "distinct", "branches", "within", "limit", "id", "Kunde",
                      "eindeutig", "\xfcber", "check", "no.", "(all)", "x-y", "is_unique", "1", "a:b", "50%"]


def _field_names():
    return gen_fields.field_names().filter(lambda n: not keyword.issoftkeyword(n))


@st.composite
def _rewrite_ops(draw, counts):
    kinds = ["comment", "empty-row", "trailing", "trim", "marker", "names-case", "blanks", "xcase", "permute",
             "props-late"]
    count = draw(st.sampled_from(counts))
    ops = []
    for _ in range(count):
        kind = draw(st.sampled_from(kinds))
        picks = draw(st.lists(st.integers(0, 997), min_size=1, max_size=10))
        texts = []
        if kind in ("comment", "trailing"):
            texts = draw(st.lists(st.text("abcXYZ 019,;\"'.-_#\xe4€中DFC", max_size=8), max_size=3))
        ops.append({"kind": kind, "picks": picks, "texts": texts})
    return ops


@st.composite
def valid_cids(draw, mode="defects", format_kinds=gen_fields.FORMATS):
    kind = draw(st.sampled_from(format_kinds))
    textual = kind in ("delimited", "delimited-de", "fixed")
    allowed_text, allowed = draw(st.sampled_from(_ALLOWED)) if textual else (None, None)
    header = 0 if kind == "fixed" else draw(st.sampled_from([0, 0, 1, 2, 3]))
    line_delimiter = draw(st.sampled_from([None, "LF", "CR", "CRLF", "Any"])) if textual else None
    fmt = gen_fields.format_spec(kind, header, allowed, allowed_text, line_delimiter)
    if not textual:
        sheet = draw(st.sampled_from([None, 1, 2, 3]))
        if sheet:
            fmt["sheet"] = sheet
    rows = gen_fields.format_rows(fmt)
    attrs = {"format": fmt["format"], "header": header}
    if textual:
        encoding = draw(st.sampled_from(_ENCODINGS))
        for row in rows:
            if row[1] == "Encoding":
                row[2] = encoding
        attrs["encoding"] = codecs.lookup(encoding).name
        attrs["decimal_separator"] = fmt["decimal"]
        attrs["thousands_separator"] = fmt["thousands"]
        attrs["line_delimiter"] = _LINE_DELIMITERS[(line_delimiter or "any").lower()]
        attrs["allowed_characters"] = allowed
    else:
        attrs["sheet"] = fmt.get("sheet") or 1
    if fmt["format"] == "delimited":
        attrs.update({"item_delimiter": ",", "quote_character": '"', "escape_character": '"',
                      "quoting": csv.QUOTE_MINIMAL})
        if draw(st.booleans()):
            text, character = draw(st.sampled_from(_ITEM_DELIMITERS))
            rows.append(["D", "Item delimiter", text])
            attrs["item_delimiter"] = character
        if draw(st.booleans()):
            quote = draw(st.sampled_from(['"', "'"]))
            rows.append(["D", "Quote character", quote])
            attrs["quote_character"] = quote
        if draw(st.booleans()):
            quoting = draw(st.sampled_from(["All", "Minimal", "all", "minimal"]))
            rows.append(["D", "Quoting", quoting])
            attrs["quoting"] = _QUOTINGS[quoting.lower()]
        if draw(st.booleans()):
            rows.append(["D", "Escape character", '"'])
    kinds = ["format"] + ["prop"] * (len(rows) - 1)

    names = draw(st.lists(_field_names(), min_size=1, max_size=6, unique=True))
    if draw(st.integers(0, 2)) == 0:
        # a one-letter name that also occurs inside numbers and words a count rule may contain (0xa, 1e1, and, True)
        letter = draw(st.sampled_from("abcdefnrux"))
        if letter not in [n.lower() for n in names]:
            names[draw(st.integers(0, len(names) - 1))] = letter
    bad_examples = []
    expect_fields = []
    for name in names:
        field = draw(gen_fields.fields_of(name, fmt))
        candidates = gen_fields.cells_for(draw, field, fmt, 3)
        good, bad = [], []
        for cell in candidates:
            if cell.strip() == "" or "\n" in cell or "\r" in cell:
                continue
            verdict = model_fields.verdict(field, fmt, cell)[0]
            if verdict == "accept":
                good.append(cell)
            elif verdict == "reject" and model_fields.verdict(field, dict(fmt, allowed=None), cell)[0] == "reject":
                # (rejected whatever characters are allowed: a rewrite may move the 'Allowed characters' row behind the
                # field, and an example is judged by what is in force when its row is read)
                bad.append(cell)
        example = draw(st.sampled_from(good)) if good and draw(st.booleans()) else ""
        bad_examples.append(draw(st.sampled_from(bad)) if bad else None)
        rows.append(gen_fields.field_row(dict(field, example=example)))
        kinds.append("field")
        expect_fields.append([name, field["type"] + "FieldFormat", bool(field["empty"]), field["rule"].strip()])

    expect_checks = []
    check_count = draw(st.sampled_from([0, 1, 1, 2, 2, 3]))
    descriptions = set()
    for number in range(check_count):
        words = draw(st.lists(st.sampled_from(_DESCRIPTION_WORDS), min_size=1, max_size=4))
        description = " ".join(words)
        if description in descriptions:
            description += " %d" % (number + 1)
        descriptions.add(description)
        if draw(st.booleans()):
            size = draw(st.integers(1, min(3, len(names))))
            keys = list(draw(st.permutations(names)))[:size]
            rule = draw(st.sampled_from([", ", ",", " , "])).join(keys)
            check_type = "IsUnique"
        else:
            blank = draw(st.sampled_from([" ", " ", ""]))
            threshold = draw(st.sampled_from([str(draw(st.integers(0, 9))), "0xa", "0xBEEF", "0xdecaf", "1e1", "2e0", "(6)",
                                              "2 + 3", "7 and True", "8 or False", "0b101", "1_0"]))
            rule = draw(st.sampled_from(names)) + blank + draw(st.sampled_from(["<", "<=", "==", "!=", ">=", ">"])) \
                + blank + threshold
            check_type = "DistinctCount"
        rows.append(["C", description, check_type, rule])
        kinds.append("check")
        expect_checks.append([description, check_type + "Check", rule])
    return {
        "kind": kind, "format": fmt["format"], "rows": rows, "kinds": kinds, "bad_examples": bad_examples,
        "expect": {"fields": expect_fields, "checks": expect_checks, "attrs": attrs},
        "ops": draw(_rewrite_ops([1, 1, 2, 2, 3, 3, 4, 5] if mode == "rewrites" else [0, 0, 1, 1, 2, 3, 4])),
        "salt": draw(st.integers(0, 9973)), "csv": draw(st.booleans()), "mode": mode,
    }


# ---------------------------------------------------------------------------------------------------------------
# loading and observing
# ---------------------------------------------------------------------------------------------------------------
def load(rows, via="rows"):
    """(cid, None) or (None, exception)"""
    try:
        if via == "rows":
            cid = interface.Cid()
            cid.read("c09.csv", [list(row) for row in rows])
        else:
            cid = interface.create_cid_from_string(csv_text(rows))
        return cid, None
    except Exception as error:  # the kind of exception is what is judged
        return None, error


_FORMAT_ATTRIBUTES = ("format", "header", "sheet", "item_delimiter", "quote_character", "escape_character", "quoting",
                      "line_delimiter", "decimal_separator", "thousands_separator", "skip_initial_space")


def observe(cid):
    data_format = cid.data_format
    attrs = {}
    for name in _FORMAT_ATTRIBUTES:
        try:
            attrs[name] = getattr(data_format, name)
        except (AttributeError, AssertionError):
            attrs[name] = "<not available>"
    try:
        attrs["encoding"] = codecs.lookup(data_format.encoding).name
    except Exception:
        attrs["encoding"] = "<%r>" % (data_format.encoding,)
    allowed = data_format.allowed_characters
    attrs["allowed_characters"] = None if allowed is None or allowed.items is None else [list(i) for i in allowed.items]
    checks = []
    for name in cid.check_names:
        check = cid.check_for(name)
        checks.append([name, type(check).__name__, check.rule])
    return {
        "field_names": list(cid.field_names),
        "fields": [[f.field_name, type(f).__name__, f.is_allowed_to_be_empty, str(f.length), f.rule]
                   for f in cid.field_formats],
        "check_names": list(cid.check_names),
        "checks": checks,
        "attrs": attrs,
    }


def differences(expected, actual):
    """Names of the observables in which two observations differ."""
    out = []
    if expected["field_names"] != actual["field_names"]:
        out.append("field_names")
    elif expected["fields"] != actual["fields"]:
        labels = ("name", "class", "empty", "length", "rule")
        for one, other in zip(expected["fields"], actual["fields"]):
            out += ["field:" + labels[i] for i in range(5) if one[i] != other[i] or type(one[i]) is not type(other[i])]
    if expected["check_names"] != actual["check_names"]:
        out.append("check_names")
    elif expected["checks"] != actual["checks"]:
        labels = ("name", "class", "rule")
        for one, other in zip(expected["checks"], actual["checks"]):
            out += ["check:" + labels[i] for i in range(3) if one[i] != other[i]]
    for name in sorted(expected["attrs"]):
        if expected["attrs"][name] != actual["attrs"].get(name) or \
                type(expected["attrs"][name]) is not type(actual["attrs"].get(name)):
            out.append("format:" + name)
    return sorted(set(out))


def _declared_differences(expect, actual):
    """Compare an observation with what the generator declared (no length text, subset of attributes)."""
    out = []
    names = [f[0] for f in expect["fields"]]
    if names != actual["field_names"]:
        out.append("field_names")
    else:
        for declared, seen in zip(expect["fields"], actual["fields"]):
            if declared[1] != seen[1]:
                out.append("field:class")
            if declared[2] is not seen[2]:
                out.append("field:empty")
            if declared[3] != seen[4] and declared[1] != "DecimalFieldFormat":  # Decimal keeps no rule text: not judged
                out.append("field:rule")
    if [c[0] for c in expect["checks"]] != actual["check_names"]:
        out.append("check_names")
    else:
        for declared, seen in zip(expect["checks"], actual["checks"]):
            if declared[1] != seen[1]:
                out.append("check:class")
            if declared[2] != seen[2]:
                out.append("check:rule")
    for name, value in sorted(expect["attrs"].items()):
        if actual["attrs"].get(name) != value:
            out.append("format:" + name)
    return sorted(set(out))


# ---------------------------------------------------------------------------------------------------------------
# (a) meaning-preserving rewrites
# ---------------------------------------------------------------------------------------------------------------
def apply_rewrite(tagged, op):
    tape = Tape(op.get("picks") or [0])
    texts = list(op.get("texts") or [])
    kind = op["kind"]
    tagged = [[k, list(cells)] for k, cells in tagged]

    def some_text():
        pool = texts + COMMENT_TEXTS
        return pool[tape.next(len(pool))]

    if kind == "comment":
        for _ in range(1 + tape.next(3)):
            cells = [""] + [some_text() for _ in range(tape.next(8))]
            tagged.insert(tape.next(len(tagged) + 1), ["comment", cells])
    elif kind == "empty-row":
        for _ in range(1 + tape.next(2)):
            tagged.insert(tape.next(len(tagged) + 1), ["empty", []])
    elif kind == "trailing":
        for row in tagged:
            if row[0] in WIDTHS and tape.next(3) != 0:
                row[1] = _pad(row[1], WIDTHS[row[0]]) + [some_text() or "note" for _ in range(1 + tape.next(3))]
    elif kind == "trim":
        for row in tagged:
            if row[0] == "field" and tape.next(3) != 0:
                while len(row[1]) > 2 and row[1][-1] == "":
                    del row[1][-1]
    elif kind == "marker":
        for row in tagged:
            if row[0] in WIDTHS:
                marker = row[1][0].strip()
                marker = marker.lower() if tape.next(2) else marker.upper()
                row[1][0] = ["%s", " %s", "%s ", "  %s  ", "%s"][tape.next(5)] % marker
    elif kind == "names-case":
        for row in tagged:
            if row[0] in ("format", "prop"):
                name = row[1][1]
                row[1][1] = _case_variant(name, tape.next(6))
                if row[0] == "format" or name.lower() in _SYMBOLIC_VALUE_PROPERTIES:
                    row[1][2] = _case_variant(row[1][2], tape.next(6))
                elif name.lower() == "item delimiter" and row[1][2].lower() == "tab":
                    row[1][2] = _case_variant(row[1][2], tape.next(6))
    elif kind == "blanks":
        for row in tagged:
            if row[0] == "field":
                for index in (1, 3, 5, 6):
                    if index < len(row[1]) and row[1][index].strip() != "" and tape.next(3) != 0:
                        row[1][index] = " " * tape.next(3) + row[1][index] + " " * tape.next(3)
    elif kind == "xcase":
        for row in tagged:
            if row[0] == "field" and len(row[1]) > 3 and row[1][3].strip() != "":
                row[1][3] = row[1][3].lower() if tape.next(2) else row[1][3].upper()
    elif kind == "permute":
        # (only the properties in front of the first field: an earlier 'props-late' may have moved one behind the
        # fields, and swapping it with one a field consults would change what the CID means)
        first_field = next((i for i, row in enumerate(tagged) if row[0] == "field"), len(tagged))
        slots = [i for i, row in enumerate(tagged) if row[0] == "prop" and i < first_field]
        props = [tagged[i] for i in slots]
        order = []
        while props:
            order.append(props.pop(tape.next(len(props))))
        for slot, row in zip(slots, order):
            tagged[slot] = row
    elif kind == "props-late":
        # a property no field consults while it is declared may just as well be set after the fields or the checks
        late = ("header", "encoding", "sheet", "line delimiter", "quote character", "item delimiter",
                "escape character", "quoting")
        movable = [i for i, row in enumerate(tagged) if row[0] == "prop" and len(row[1]) > 1
                   and row[1][1].strip().lower().replace("_", " ") in late]
        if movable:
            source = movable[tape.next(len(movable))]
            row = tagged.pop(source)
            target = source + 1 + tape.next(len(tagged) - source) if len(tagged) > source else len(tagged)
            tagged.insert(min(target, len(tagged)), row)
    else:
        raise ValueError("unknown rewrite %r" % kind)
    return tagged


def _judge_rewrite(sub, case, base_rows, base_observation, tagged, ops, via):
    """Load the rewritten CID and compare; returns the CID or None."""
    rows = _plain(tagged)
    cid, error = load(rows, via)
    sub.evaluations += 1
    problem = None
    if error is not None:
        problem = [type(error).__name__]
        detail = "%s: %s" % (type(error).__name__, error)
    else:
        problem = differences(base_observation, observe(cid))
        detail = "differs in %s" % ", ".join(problem)
    if not problem:
        return cid
    # which rewrite is responsible? the first that reproduces the problem when applied alone
    culprit = None
    base_tagged = _tagged(case)
    for op in ops:
        try:
            alone_cid, alone_error = load(_plain(apply_rewrite(base_tagged, op)), via)
        except Exception:
            continue
        if alone_error is not None:
            alone_problem = [type(alone_error).__name__]
        else:
            alone_problem = differences(base_observation, observe(alone_cid))
        if alone_problem:
            culprit = op["kind"]
            problem = alone_problem
            break
    if culprit is None:
        culprit = "+".join(sorted(set(op["kind"] for op in ops)))
    sub.fail("C09|rewrite|%s|%s" % (culprit, problem[0]), case,
             "rewritten CID (%s; via %s) %s\nunrewritten rows: %r\nrewritten rows:   %r" % (
                 ", ".join(op["kind"] for op in ops), via, detail, base_rows, rows))
    return None


# ---------------------------------------------------------------------------------------------------------------
# (b) the defect catalogue
# ---------------------------------------------------------------------------------------------------------------
def _check_field_names(cells):
    """Names of the fields a (valid) check row refers to."""
    rule = cells[3] if len(cells) > 3 else ""
    if cells[2].strip() == "IsUnique":
        return [part.strip() for part in rule.split(",") if part.strip()]
    match = _NAME_REGEX.match(rule.strip())
    return [match.group(0)] if match else []


def defect_cases(case, tagged):
    """Yield dicts {"id", "variant", "rows", "row" (1-based or None), "mode": "row" | "class" | "form", "kind",
    "position"} - every catalogue defect at every applicable row of the valid CID ``tagged``."""
    salt = case.get("salt", 0)
    every = bool(case.get("all_variants"))
    fmt = case["format"]
    fixed = fmt == "fixed"

    def variants(pool, seed):
        pool = list(pool)
        if every:
            return pool
        return [pool[(seed + salt) % len(pool)]]

    index = dict((kind, [i for i, row in enumerate(tagged) if row[0] == kind]) for kind in ROW_KINDS)
    format_row = index["format"][0]
    d_rows = sorted(index["format"] + index["prop"])
    f_rows = index["field"]
    c_rows = index["check"]
    first_of = dict((kind, rows[0]) for kind, rows in index.items() if rows)

    def position(i):
        kind = tagged[i][0]
        return "first" if first_of.get(kind) == i else "later"

    def replaced(i, cells):
        rows = _plain(tagged)
        rows[i] = list(cells)
        return rows

    def inserted(at, *new_rows):
        rows = _plain(tagged)
        rows[at:at] = [list(r) for r in new_rows]
        return rows

    def moved(i, to):
        rows = _plain(tagged)
        row = rows.pop(i)
        rows.insert(to if to <= i else to - 1, row)
        return rows

    def case_of(defect_id, variant, rows, row, kind, where, mode="row"):
        return {"id": defect_id, "variant": variant, "rows": rows, "row": row, "mode": mode, "kind": kind,
                "position": where}

    # -- data format ---------------------------------------------------------------------------------------------
    for p in index["prop"]:
        yield case_of("D-prop-before-format", "moved", moved(p, format_row), format_row + 1, "prop", position(p))
    for name, value in variants(PROPS_FOR_INSERT[fmt], 0):
        yield case_of("D-prop-before-format", "inserted " + name, inserted(format_row, ["D", name, value]),
                      format_row + 1, "prop-inserted", "first")
    others = [n for f, n in sorted(FORMAT_NAMES.items()) if f != fmt]
    for i in d_rows + [f_rows[-1], len(tagged) - 1]:
        for value in variants([FORMAT_NAMES[fmt], FORMAT_NAMES[fmt].lower()] + others, i):
            for name in variants(["Format", "format", "FORMAT"], i + len(value)):
                yield case_of("D-format-twice", value, inserted(i + 1, ["D", name, value]), i + 2,
                              "after-" + tagged[i][0], position(i))
    for value in variants(["no_such_format", "xml", "json", "", "delimited fixed", "text", "xls", "calc"], 0):
        cells = _pad(tagged[format_row][1], 3)
        cells[2] = value
        yield case_of("D-format-unknown", value, replaced(format_row, cells), format_row + 1, "format", "first")
    for i in d_rows:
        where = position(i) if tagged[i][0] == "prop" else "first"
        for cells in variants([["D"], ["D", ""], ["D", "", "x"], ["D", "", "utf-8"]], i):
            yield case_of("D-prop-name-empty", repr(cells), inserted(i + 1, cells), i + 2, "after-" + tagged[i][0],
                          where)
        for name in variants(UNKNOWN_PROPERTIES, i):
            yield case_of("D-prop-name-unknown", name, inserted(i + 1, ["D", name, "1"]), i + 2,
                          "after-" + tagged[i][0], where)
            if tagged[i][0] == "prop":
                cells = list(tagged[i][1])
                cells[1] = name
                yield case_of("D-prop-name-unknown", name, replaced(i, cells), i + 1, "prop", where)
        for name, value in variants(INAPPLICABLE[fmt], i):
            yield case_of("D-prop-inapplicable", name, inserted(i + 1, ["D", name, value]), i + 2,
                          "after-" + tagged[i][0], where)
        for name in sorted(BAD_VALUES[fmt]):
            for value in variants(BAD_VALUES[fmt][name], i):
                yield case_of("D-bad-value:" + name.lower(), value, inserted(i + 1, ["D", name, value]), i + 2,
                              "after-" + tagged[i][0], where)
        for name in sorted(FORM_ONLY_VALUES.get(fmt, {})):
            for value in variants(FORM_ONLY_VALUES[fmt][name], i):
                yield case_of("D-bad-value:" + name.lower(), value, inserted(i + 1, ["D", name, value]), i + 2,
                              "after-" + tagged[i][0], where, mode="form")
        if tagged[i][0] == "prop":
            name = tagged[i][1][1].strip().capitalize()
            if name in BAD_VALUES[fmt]:
                for value in variants(BAD_VALUES[fmt][name], i + 1):
                    cells = list(tagged[i][1])
                    cells[2] = value
                    yield case_of("D-bad-value:" + name.lower(), value, replaced(i, cells), i + 1, "prop", where)
    if fmt == "delimited":
        pairs = [([["D", "Item delimiter", ";"], ["D", "Quote character", ";"]], "item delimiter = quote character"),
                 ([["D", "Decimal separator", ","], ["D", "Thousands separator", ","]], "decimal = thousands"),
                 ([["D", "Thousands separator", "."], ["D", "Decimal separator", "."]], "thousands = decimal"),
                 ([["D", "Quote character", "'"], ["D", "Item delimiter", "0x27"]], "quote character = item delimiter")]
        for new_rows, label in variants(pairs, 0):
            yield case_of("D-contradiction", label, inserted(d_rows[-1] + 1, *new_rows), None, "prop-inserted",
                          "later", mode="class")
    yield case_of("no-fields", "", [list(c) for k, c in tagged if k not in ("field", "check")], None, "field", "all",
                  mode="class")
    yield case_of("no-data-format", "", [list(c) for k, c in tagged if k not in ("format", "prop")], None, "format",
                  "all", mode="class")
    yield case_of("D-after-fields", "", [list(c) for k, c in tagged if k not in ("format", "prop")]
                  + [list(c) for k, c in tagged if k in ("format", "prop")], None, "format", "all", mode="class")
    for i in range(len(tagged)):
        for marker in variants(MARKERS_UNKNOWN, i):
            cells = list(tagged[i][1]) or [""]
            cells[0] = marker
            yield case_of("unknown-marker", marker, replaced(i, cells), i + 1, tagged[i][0], position(i))

    # -- fields ----------------------------------------------------------------------------------------------------
    names = [_pad(tagged[i][1], 7)[1].strip() for i in f_rows]
    bad_examples = case.get("bad_examples") or []
    for number, i in enumerate(f_rows):
        original = _pad(tagged[i][1], 7)
        where = position(i)
        type_name = original[5].strip() or "Text"

        def field_defect(defect_id, variant, mode="row", **changes):
            cells = list(original)
            for key, value in changes.items():
                cells[{"name": 1, "example": 2, "mark": 3, "length": 4, "type": 5, "rule": 6}[key]] = value
            return case_of(defect_id, variant, replaced(i, cells), i + 1, "field", where, mode)

        for pool, defect_id in ((NAME_EMPTY, "F-name-empty"), (NAME_DIGIT_FIRST, "F-name-digit-first"),
                                (NAME_UNDERSCORE_FIRST, "F-name-underscore-first"), (NAME_SPECIAL, "F-name-special"),
                                (NAME_NON_ASCII, "F-name-non-ascii"), (NAME_KEYWORD, "F-name-keyword")):
            for value in variants(pool, i):
                yield field_defect(defect_id, value, name=value)
        if number > 0:
            for earlier in variants(range(number), i):
                for pattern in variants(["%s", " %s", "%s ", "  %s  "], i + earlier):
                    yield field_defect("F-name-duplicate", "of field %d" % (earlier + 1), name=pattern % names[earlier])
        for value in variants(BAD_EMPTY_MARK, i):
            yield field_defect("F-bad-empty-mark", value, mark=value)
        for value in variants(TYPE_UNKNOWN, i):
            yield field_defect("F-type-unknown", value, type=value, example="")
        for value in variants(TYPE_MALFORMED, i):
            yield field_defect("F-type-malformed", value, type=value, example="")
        for pool, defect_id in ((LENGTH_NON_NUMERIC, "F-length-non-numeric"), (LENGTH_REVERSED, "F-length-reversed"),
                                (LENGTH_NEGATIVE, "F-length-negative")):
            for value in variants(pool, i):
                yield field_defect(defect_id, "%s:%s" % (type_name, value), length=value, example="")
        if fixed:
            yield field_defect("F-fixed-no-length", type_name, length="", example="")
            for value in variants(FIXED_RANGE, i):
                yield field_defect("F-fixed-range", "%s:%s" % (type_name, value), length=value, example="")
            yield field_defect("F-fixed-zero", type_name, length="0", example="")
        elif type_name == "Integer":
            for value in variants(INTEGER_LENGTH_0, i):
                yield field_defect("F-integer-length-0", value, mode="form", length=value, rule="", example="")
        if type_name in BAD_RULES:
            for value in variants(BAD_RULES[type_name], i):
                yield field_defect("F-rule-" + type_name.lower(), value, rule=value, example="")
        if type_name == "Decimal":
            for value in variants(DECIMAL_EMPTY_ITEM, i):
                yield field_defect("F-rule-decimal-empty-item", value, mode="form", rule=value, example="")
        if type_name == "DateTime" and not fixed:
            for rule, example in variants(DATETIME_DUPLICATE, i):
                yield field_defect("F-rule-datetime-duplicate-placeholder", rule, mode="form", rule=rule,
                                   example=example, length="")
        if type_name == "Constant" and original[6].strip() != "":
            yield field_defect("F-constant-empty-mark", "X with a rule", mark="X", example="")
        if number < len(bad_examples) and bad_examples[number]:
            yield field_defect("F-example-rejected", type_name, example=bad_examples[number])

    # -- checks ----------------------------------------------------------------------------------------------------
    first_name = names[0]
    other_name = names[1] if len(names) > 1 else names[0]
    unknown = first_name + "_" + first_name
    while unknown in names:
        unknown += "_" + first_name
    check_targets = []  # (row index or None for an appended check, cells, check type)
    for i in c_rows:
        cells = _pad(tagged[i][1], 4)
        check_targets.append((i, cells, cells[2].strip()))
    end = len(tagged)
    present = set(t[2] for t in check_targets)
    descriptions = [t[1][1] for t in check_targets]
    fresh = "inserted check"
    while fresh in descriptions:
        fresh += " 2"
    if "IsUnique" not in present:
        check_targets.append((None, ["C", fresh, "IsUnique", first_name], "IsUnique"))
    if "DistinctCount" not in present:
        check_targets.append((None, ["C", fresh + " count", "DistinctCount", first_name + " < 5"], "DistinctCount"))

    for i, original, check_type in check_targets:
        if i is None:
            where, kind, at = "appended", "check-inserted", end
        else:
            where, kind, at = position(i), "check", i
        referenced = [n for n in _check_field_names(original) if n in names] or [first_name]
        key = referenced[0]

        def check_defect(defect_id, variant, mode="row", **changes):
            cells = list(original)
            for name, value in changes.items():
                cells[{"description": 1, "type": 2, "rule": 3}[name]] = value
            if i is None:
                return case_of(defect_id, variant, inserted(end, cells), end + 1, kind, where, mode)
            return case_of(defect_id, variant, replaced(i, cells), i + 1, kind, where, mode)

        # placement
        if i is None:
            yield case_of("C-before-fields", check_type, inserted(f_rows[0], original), f_rows[0] + 1, kind, where)
        else:
            yield case_of("C-before-fields", check_type, moved(i, f_rows[0]), f_rows[0] + 1, kind, where)
        if i is None:
            yield case_of("C-before-format", check_type, inserted(format_row, original), format_row + 1, kind, where)
        else:
            yield case_of("C-before-format", check_type, moved(i, format_row), format_row + 1, kind, where)
        latest = max(names.index(n) for n in referenced)
        if latest == 0 and len(names) > 1 and i is None:
            latest = len(names) - 1
            later_cells = list(original)
            later_cells[3] = later_cells[3].replace(first_name, names[latest], 1)
            yield case_of("C-names-later-field", check_type, inserted(f_rows[latest], later_cells),
                          f_rows[latest] + 1, kind, where)
        elif latest > 0 and i is not None:
            yield case_of("C-names-later-field", check_type, moved(i, f_rows[latest]), f_rows[latest] + 1, kind, where)
        # rule naming an undeclared field
        if check_type == "IsUnique":
            unknown_rules = [unknown, "%s, %s" % (key, unknown), "%s, %s" % (unknown, key)]
        else:
            unknown_rules = [unknown + " < 3", unknown + " >= 1", unknown + "==2"]
        for rule in variants(unknown_rules, at):
            yield check_defect("C-unknown-field", check_type, rule=rule)
        # description
        yield check_defect("C-description-empty", check_type, description="")
        copy = list(original)
        if i is None:
            yield case_of("C-description-duplicate", check_type, inserted(end, original, copy), end + 2, kind, where)
        else:
            yield case_of("C-description-duplicate", check_type, inserted(i + 1, copy), i + 2, kind, where)
            earlier = [t for t in check_targets if t[0] is not None and t[0] < i]
            if earlier:
                yield check_defect("C-description-duplicate", check_type + " renamed", description=earlier[0][1][1])
        # type
        for value in variants(CHECK_TYPE_UNKNOWN, at):
            yield check_defect("C-type-unknown", value, type=value)
        yield check_defect("C-type-empty", check_type, type="")
        if i is None:
            yield case_of("C-type-empty", "short row", inserted(end, original[:2]), end + 1, kind, where)
        # rule
        yield check_defect("C-%s-rule-empty" % check_type.lower(), "", rule="")
        # ... also when a cell beyond the parsed columns holds what would be a fine rule (such cells are ignored)
        for blank in variants(["", " "], at):
            noted = list(original[:3]) + [blank, original[3]]
            if i is None:
                yield case_of("C-%s-rule-empty" % check_type.lower(), "note behind", inserted(end, noted), end + 1, kind,
                              where)
            else:
                yield case_of("C-%s-rule-empty" % check_type.lower(), "note behind", replaced(i, noted), i + 1, kind,
                              where)
        if check_type == "IsUnique":
            for rule in variants(["%s, %s" % (key, key), "%s, %s, %s" % (key, other_name, key),
                                  "%s,%s" % (key, key)], at):
                yield check_defect("C-isunique-duplicate-name", rule, rule=rule)
            for rule in variants(["%s %s" % (key, other_name), "%s, %s %s" % (other_name, key, other_name)], at):
                yield check_defect("C-isunique-missing-comma", rule, rule=rule)
            for rule in variants(["%s,,%s" % (key, other_name), "%s, ,%s" % (key, other_name), ",%s" % key,
                                  ",,%s" % key], at):
                yield check_defect("C-isunique-doubled-comma", rule, rule=rule)
            for pattern in variants(["%s (", "%s, '%s", "%s; %s", "%s.%s", "%s + %s", "(%s)", "%s, [%s", "%s, 1"], at):
                rule = pattern % ((key, other_name)[:pattern.count("%s")])
                yield check_defect("C-isunique-malformed", pattern, rule=rule)
        else:
            broken = ["%s <", "%s < < 3", "%s 3", "%s < (3", "%s < 3)", "%s ==", "%s < 'x'", "%s <= 'x", "%s < 3 3",
                      "%s <> 3", "%s = 3", "%s < 3 +", "%s < [3", "%s <= 3]", "%s \"< 3",
                      # well-formed Python that cannot be evaluated, each for a reason of its own
                      "%s < [1][5]", "%s < {}['k']", "%s < (1).digits", "%s < len(5)", "%s < 1 // 0", "%s < nothing",
                      "%s < int('x')", "%s < ().count()", "%s < '%%d' %% 'x'", "%s < 10 ** -1 << 2"]
            for pattern in variants(broken, at):
                yield check_defect("C-distinctcount-broken", pattern % "f", rule=pattern % key)
            for pattern in variants(["< 3", "3 < %s", "3", "== %s"], at):
                rule = pattern % key if "%s" in pattern else pattern
                yield check_defect("C-distinctcount-no-field-first", pattern, rule=rule)


DEFECT_COUNT = 56


def judge_defect(sub, case, defect, via):
    rows = defect["rows"]
    cid, error = load(rows, via)
    sub.evaluations += 1
    defect_id = defect["id"]
    label = "defect:%s:%s:%s" % (defect_id, defect["kind"], defect["position"])
    context = "defect %s (%s) at row %s [%s, %s; via %s]\nrows: %r" % (
        defect_id, defect["variant"], defect["row"], defect["kind"], defect["position"], via, rows)
    if error is None:
        if defect["mode"] == "form":
            sub.cls(label + "->accepted(neutral)")
            return
        sub.cls(label + "->ACCEPTED")
        sub.fail("C09|defect|%s|accepted" % defect_id, case, "accepted although it must be rejected: " + context)
        return
    if not isinstance(error, errors.InterfaceError):
        sub.cls(label + "->" + type(error).__name__)
        sub.fail("C09|defect|%s|%s" % (defect_id, type(error).__name__), case,
                 "%s instead of InterfaceError (%s): %s" % (type(error).__name__, norm_message(error, 120), context))
        return
    if defect["mode"] == "class":
        sub.cls(label + "->rejected")
        return
    text = str(error)
    match = _LOCATION_REGEX.search(text)
    if match is None:
        sub.cls(label + "->no-location")
        sub.fail("C09|defect|%s|no-location" % defect_id, case,
                 "InterfaceError names no row (location attribute: %r): %r; %s" % (
                     getattr(error, "location", None), text, context))
        return
    if int(match.group(1)) != defect["row"]:
        sub.cls(label + "->wrong-row")
        sub.fail("C09|defect|%s|wrong-row" % defect_id, case,
                 "InterfaceError names row %s instead of %d: %r; %s" % (match.group(1), defect["row"], text, context))
        return
    location = getattr(error, "location", None)
    if isinstance(location, errors.Location):
        if location.line + 1 != defect["row"]:
            sub.cls(label + "->wrong-row")
            sub.fail("C09|defect|%s|wrong-row" % defect_id, case,
                     "InterfaceError.location.line is %d instead of %d: %r; %s" % (
                         location.line, defect["row"] - 1, text, context))
            return
        sub.cls(label + "->rejected-at-row")
    else:
        sub.cls(label + "->rejected-at-row(text only)")


# ---------------------------------------------------------------------------------------------------------------
# one case
# ---------------------------------------------------------------------------------------------------------------
def check_case(sub, case):
    base_rows = [list(r) for r in case["rows"]]
    ops = case.get("ops") or []
    kinds = case["kinds"]
    counts = dict((k, kinds.count(k)) for k in ROW_KINDS)
    classes = ["mode:" + case.get("mode", "both"), "format:" + case["kind"], "fields:%d" % counts["field"],
               "checks:%d" % counts["check"], "rewrites:%d" % len(ops)] + ["rewrite:" + op["kind"] for op in ops]
    for row, kind in zip(base_rows, kinds):
        if kind == "field":
            classes.append("type:" + (row[5] or "Text"))
            if row[2] != "":
                classes.append("with-example")
        elif kind == "check":
            classes.append("check:" + row[2])
    nontrivial = len(ops) >= 2 or counts["field"] >= 2 or counts["check"] >= 2 or counts["prop"] >= 2
    sub.case((base_rows, ops, case.get("salt")), nontrivial, classes,
             sample={"rows": base_rows, "rewrites": [op["kind"] for op in ops]}, evals=0)

    # the valid CID itself
    base_cid, error = load(base_rows)
    sub.evaluations += 1
    if error is not None:
        sub.fail("C09|base|rejected|%s|%s" % (type(error).__name__, norm_message(error)), case,
                 "valid CID rejected with %s: %s\nrows: %r" % (type(error).__name__, error, base_rows))
        return
    base_observation = observe(base_cid)
    declared = _declared_differences(case["expect"], base_observation)
    if declared:
        sub.fail("C09|base|%s" % declared[0], case,
                 "loaded CID differs from its declaration in %s: declared %r, loaded %r\nrows: %r" % (
                     ", ".join(declared), case["expect"], base_observation, base_rows))
        return
    use_csv = not _has_line_break(base_rows)
    if use_csv:
        csv_cid, error = load(base_rows, "csv")
        sub.evaluations += 1
        if error is not None:
            sub.fail("C09|csv|base|%s" % type(error).__name__, case,
                     "create_cid_from_string rejects the CID Cid.read accepts: %s: %s\ntext: %r" % (
                         type(error).__name__, error, csv_text(base_rows)))
            use_csv = False
        else:
            different = differences(base_observation, observe(csv_cid))
            if different:
                sub.fail("C09|csv|base|%s" % different[0], case,
                         "create_cid_from_string and Cid.read disagree in %s\ntext: %r" % (
                             ", ".join(different), csv_text(base_rows)))

    # (a) rewrites: judged in the modes "rewrites" and "both"; in mode "defects" they only decorate the valid CID
    mode = case.get("mode", "both")
    tagged = _tagged(case)
    valid = tagged
    if ops:
        rewritten = tagged
        for op in ops:
            rewritten = apply_rewrite(rewritten, op)
        if mode == "defects":
            rewritten_cid, error = load(_plain(rewritten))
            sub.evaluations += 1
            accepted = error is None and not differences(base_observation, observe(rewritten_cid))
        else:
            accepted = _judge_rewrite(sub, case, base_rows, base_observation, rewritten, ops, "rows") is not None
            if accepted and use_csv and not _has_line_break(_plain(rewritten)):
                _judge_rewrite(sub, case, base_rows, base_observation, rewritten, ops, "csv")
        if accepted:
            valid = rewritten
        else:
            # reported by the part that judges rewrites; the defects are then applied to the unrewritten CID
            sub.cls("rewritten-cid-not-accepted")
    if mode == "rewrites":
        return

    # (b) defects, each alone, at every applicable row
    via_csv = use_csv and bool(case.get("csv"))
    for defect in defect_cases(case, valid):
        judge_defect(sub, case, defect, "rows")
        if via_csv and not _has_line_break(defect["rows"]):
            judge_defect(sub, case, defect, "csv")


# ---------------------------------------------------------------------------------------------------------------
# exhaustive part: fixed seed CIDs x every variant
# ---------------------------------------------------------------------------------------------------------------
_SEED_FIELDS = [
    # name, example, mark, length (non fixed), width (fixed), type, rule, rejected example
    ("customer_id", "12345", "", "", "5", "Integer", "1...99999", "0"),
    ("surname", "Miller", "", "1...60", "10", "Text", "", "x" * 61),
    ("gender", "male", "X", "", "6", "Choice", "male, female", "other"),
    ("kind", "A", "", "1", "1", "Constant", '"A"', "B"),
    ("balance", "1234.50", "", "", "10", "Decimal", "-99999.99...99999.99", "abc"),
    ("born", "1969-11-03", "X", "", "10", "DateTime", "YYYY-MM-DD", "1969-13-03"),
    ("branch", "B123-abc", "", "", "8", "Pattern", "B???-*", "X123"),
    ("email", "some@example.com", "", "...40", "20", "RegEx", "^[a-z0-9._]+@[a-z0-9.]+$", "no at sign"),
    # an example with a Windows line break in it: four characters, however the CID reaches cutplace
    ("remark", "a\r\nb", "X", "4", "4", "Text", "", "a\r\nbc"),
]


def seed_cases():
    property_rows = {
        "delimited": [["D", "Encoding", "UTF-8"], ["D", "Header", "1"], ["D", "Item delimiter", ";"],
                      ["D", "Line delimiter", "LF"], ["D", "Thousands separator", ","]],
        "delimited-de": [["D", "Decimal separator", ","], ["D", "Thousands separator", "."],
                         ["D", "Item delimiter", "Tab"], ["D", "Quoting", "All"]],
        "fixed": [["D", "Encoding", "CP1252"], ["D", "Line delimiter", "CRLF"], ["D", "Allowed characters", "32..."]],
        "excel": [["D", "Header", "2"], ["D", "Sheet", "3"]],
        "ods": [["D", "Sheet", "2"]],
    }
    attrs = {
        "delimited": {"format": "delimited", "header": 1, "encoding": "utf-8", "item_delimiter": ";",
                      "line_delimiter": "\n", "thousands_separator": ",", "decimal_separator": "."},
        "delimited-de": {"format": "delimited", "header": 0, "item_delimiter": "\t", "quoting": csv.QUOTE_ALL,
                         "thousands_separator": ".", "decimal_separator": ","},
        "fixed": {"format": "fixed", "encoding": "cp1252", "line_delimiter": "\r\n",
                  "allowed_characters": [[32, None]]},
        "excel": {"format": "excel", "header": 2, "sheet": 3},
        "ods": {"format": "ods", "header": 0, "sheet": 2},
    }
    for kind in gen_fields.FORMATS:
        format_name = {"delimited-de": "delimited"}.get(kind, kind)
        fixed = format_name == "fixed"
        for decorated in (False, True):
            rows, kinds = [], []

            def add(row_kind, cells):
                rows.append(list(cells))
                kinds.append(row_kind)

            if decorated:
                add("comment", ["", "Customers", "a comment", "D"])
            add("format", ["D", "Format", FORMAT_NAMES[format_name]])
            if decorated:
                add("empty", [])
            for cells in property_rows[kind]:
                add("prop", cells)
            if decorated:
                add("comment", ["", "Name", "Example", "Empty", "Length", "Type", "Rule"])
            expect_fields, bad_examples = [], []
            for name, example, mark, length, width, type_name, rule, rejected in _SEED_FIELDS:
                if fixed and name == "remark":
                    continue  # the fixed seed CID allows the characters from 32 on only
                if fixed and type_name == "Text":
                    rejected = "x" * 11
                if kind == "delimited-de" and type_name == "Decimal":
                    example = "1.234,50"
                add("field", ["F", name, example, mark, width if fixed else length, type_name, rule])
                if decorated and name == "kind":
                    add("comment", [""])
                expect_fields.append([name, type_name + "FieldFormat", mark == "X", rule])
                bad_examples.append(rejected)
            checks = [["C", "customer must be unique", "IsUnique", "customer_id"],
                      ["C", "name must be unique in branch", "IsUnique", "branch, surname"],
                      ["C", "distinct branches must be within limit", "DistinctCount", "branch < 5"]]
            for number, cells in enumerate(checks):
                if decorated and number == 2:
                    add("comment", ["", "", "IsUnique"])
                add("check", cells)
            yield {"kind": kind, "format": format_name, "rows": rows, "kinds": kinds, "bad_examples": bad_examples,
                   "expect": {"fields": expect_fields,
                              "checks": [[c[1], c[2] + "Check", c[3]] for c in checks], "attrs": attrs[kind]},
                   "ops": [], "salt": 0, "csv": True, "all_variants": True, "part": "catalogue"}


def _catalogue_shard(case):
    from vlib.runner import Sub

    sub = Sub("catalogue")
    check_case(sub, case)
    return sub


def run(ctx):
    ctx.par(_catalogue_shard, list(seed_cases()))
    ctx.hyp("rewrites", lambda: valid_cids("rewrites"), check_case, ctx.n(1600, 24000))
    ctx.hyp("defects", lambda: valid_cids("defects"), check_case, ctx.n(400, 6000))


def replay(sub, case):
    check_case(sub, case)
