"""C15 - ODS sheets are read as the logical table they contain."""
import io
import os
import shutil
import tempfile

from hypothesis import strategies as st

from vlib import enc_ods
from vlib.runner import HarnessError, norm_message, reused_dir

import cutplace
from cutplace import errors, interface, rowio

PROPERTY_ID = "C15"
RULE = (
    "Hypothesis: 1-3 sheets, each a table of 0-6 rows x 0-8 text cells (ragged or rectangular) built from runs of "
    "equal cells and equal adjacent rows over a pool with empty cells, XML specials, non-ASCII incl. astral and "
    "NBSP, single / multiple / leading / trailing blanks, tabs and line breaks, written by the independent encoder "
    "vlib/enc_ods.py with every optional feature drawn independently (column runs, row runs, text:s for all blanks / "
    "whole runs / text:c counts, span layout none-whole-alternating-nested, line breaks as text:line-break or as "
    "several text:p, empty text:p, 7 XML encodings, value-type attribute, quote entities, indentation, deflate / "
    "store, schema-filler cells); every sheet k is read with list(rowio.ods_rows(path, k)) and with "
    "cutplace.rows(cid, path, on_error='yield') under an all-Text CID with Format ODS and Sheet k. Oracle: the rows "
    "equal the k-th table given to the encoder, modulo trailing empty cells / rows. Plus a fixed corpus with each "
    "feature alone. Faults (each must raise DataFormatError on both paths): archive cut at every 64th byte, bytes "
    "that are no zip, archive without content.xml, content.xml cut at every tag boundary or otherwise malformed, "
    "repeat count 0 / negative / non-numeric on a cell or a row of the sheet read, sheet number beyond the last, "
    "the member content.xml damaged behind an intact archive directory (header magic, header zeroed, CRC, method, "
    "payload bytes changed). "
    "A case is one file (all sheets, both paths) or one fault family on one file; it is non-trivial when the file "
    "has a run >= 2, a whitespace element, a span, a second or empty paragraph, or when it is a fault; distinct by "
    "hash of (sheets, options, fault)."
    "Corpus: runs of 1030 equal cells, a cell behind 1025 empty ones, 16384 columns, 1100 equal rows."
    "Cells with comments (office:annotation), tables without names."
    "Cells that hold a table of their own (sub tables)."
)
ASSUMPTIONS = [
    "the encoder vlib/enc_ods.py writes what ODF 1.2 defines (self-tested per case against its own reference "
    "reader, which also refuses white space whose reading depends on the consumer)",
    "a sheet cannot store trailing empty cells or rows distinctly: generated non-empty tables have a non-empty cell "
    "in their last row and in their last column, and results are compared after stripping trailing empty cells and "
    "rows (whether a reader pads or trims ragged rows is neutral and only counted)",
    "cells are free of CR and control characters other than tab and line feed (ODF has no element for them)",
    "a cell with several text:p reads as the paragraphs joined by a line feed",
    "through cutplace.rows only rows as long as the widest row are compared cell by cell; shorter rows must surface "
    "as an error object, whose kind is C04's business",
    "third-party zipfile / ElementTree(expat) are trusted to refuse truncated archives and malformed XML",
]

NONEMPTY_POOL = [
    "a", "b", "ab", "abc", "0", "x y", "x  y", "x   y z", " a", "a ", "  a  ", " ", "  ", "a\tb", "\t", "\ta", "a \t b",
    "a\nb", "\n", "a\n", "\nb", "a\n\nb", " a\n b ", "l1\nl2\nl3", "<", ">", "&", '"', "'",
    "<a href=\"x\">&amp;'q'</a>", "]]>", "&#65;", "<!--", "\u00e4", "\u20ac", "\u4e2d", "\U0001f600",
    "\u00e4\u00f6\u00fc \u00df", "a\u00a0b", "\u00a0", "\u00e9", "\u03a9\u2248\u00e7\u221a", "\u2003",
]
ALPHABET = "ab  \t\n<>&\"'\u00e4\u20ac\u4e2d\U0001f600\u00a0;#"
FAULT_KINDS = ["truncated", "not-zip", "no-content", "xml-cut", "xml-malformed", "col-repeat", "row-repeat",
               "missing-sheet", "member-damaged"]
REPEAT_VALUES = {"0": "nonpositive", "-1": "nonpositive", "-7": "nonpositive", "x": "nonnumeric", "": "nonnumeric",
                 "two": "nonnumeric",
                 # no whole numbers, whatever str.isdigit() / str.isnumeric() make of some of their characters
                 "1.5": "nonnumeric", "2.0": "nonnumeric", "1e1": "nonnumeric", "0x2": "nonnumeric", "2x": "nonnumeric",
                 "--2": "nonnumeric", "NaN": "nonnumeric", "1,0": "nonnumeric", "\u00b2": "nonnumeric",
                 "1\u00b2": "nonnumeric", "\u2460": "nonnumeric", "\u00bd": "nonnumeric", "\u4e09": "nonnumeric"}
LOSS_KINDS = ("s", "tab", "line-break", "span", "tail", "paragraphs", "empty-paragraph")


# -- generators ---------------------------------------------------------------------------
def cell_texts():
    return st.one_of(
        st.just(""),
        st.sampled_from(NONEMPTY_POOL),
        st.sampled_from(NONEMPTY_POOL),
        st.text(alphabet=ALPHABET, min_size=0, max_size=6),
    )


def nonempty_texts():
    return st.one_of(st.sampled_from(NONEMPTY_POOL), st.text(alphabet=ALPHABET, min_size=1, max_size=4))


@st.composite
def tables(draw, max_rows=6, max_cells=8):
    n_rows = draw(st.integers(0, max_rows))
    if n_rows == 0:
        return []
    rectangular = draw(st.booleans())
    rows = []
    while len(rows) < n_rows:
        n_cells = draw(st.integers(0, max_cells))
        row = []
        while len(row) < n_cells:
            text = draw(cell_texts())
            run = draw(st.sampled_from([1, 1, 1, 2, 3, 5]))
            row.extend([text] * run)
        row = row[:n_cells]
        run = draw(st.sampled_from([1, 1, 1, 2, 3]))
        rows.extend([list(row) for _ in range(run)])
    rows = rows[:n_rows]
    width = max(len(row) for row in rows)
    if rectangular:
        rows = [row + [""] * (width - len(row)) for row in rows]
    # constructed, not filtered: a non-empty cell in the last row and in the last column
    anchor = draw(nonempty_texts())
    if all(cell == "" for cell in rows[-1]):
        if rows[-1]:
            rows[-1][-1] = anchor
        else:
            rows[-1].append(anchor)
    width = max(len(row) for row in rows)
    if not any(len(row) == width and row[-1] != "" for row in rows):
        widest = [index for index, row in enumerate(rows) if len(row) == width]
        rows[widest[draw(st.integers(0, len(widest) - 1))]][-1] = anchor
    return rows


def option_sets():
    return st.fixed_dictionaries({
        "col_runs": st.booleans(),
        "row_runs": st.booleans(),
        "ws_all": st.booleans(),
        "ws_runs_whole": st.booleans(),
        "ws_count": st.booleans(),
        "span_mode": st.sampled_from(["none", "none"] + list(enc_ods.SPAN_MODES)),
        "span_len": st.integers(1, 3),
        "span_first": st.booleans(),
        "paragraphs": st.booleans(),
        "empty_p": st.booleans(),
        "encoding": st.sampled_from(enc_ods.ENCODINGS),
        "value_type": st.booleans(),
        "quote_entities": st.booleans(),
        "indent": st.booleans(),
        "indent_cells": st.booleans(),
        "row_containers": st.sampled_from(["none", "none", "header", "group", "all"]),
        "deflate": st.booleans(),
        "bare_empty": st.booleans(),
        "annotations": st.sampled_from([False, False, True]),
        "unnamed": st.sampled_from([False, False, True]),
        "subtables": st.sampled_from([False, False, False, True]),
    })


@st.composite
def table_cases(draw):
    n_sheets = draw(st.sampled_from([1, 2, 2, 3, 3]))
    sheets = [draw(tables()) for _ in range(n_sheets)]
    return {"kind": "table", "sheets": sheets, "options": draw(option_sets())}


@st.composite
def fault_cases(draw):
    fault = draw(st.sampled_from(FAULT_KINDS))
    small = fault in ("xml-cut", "xml-malformed")
    n_sheets = draw(st.sampled_from([1, 2, 3]))
    sheets = [draw(tables(3, 4) if small else tables()) for _ in range(n_sheets)]
    opts = draw(option_sets())
    case = {"kind": "fault", "fault": fault, "sheets": sheets, "options": opts}
    if fault in ("col-repeat", "row-repeat"):
        opts["bare_empty"] = False  # every sheet then has a row element and every row a cell element
        case["sheet"] = draw(st.integers(0, n_sheets - 1))
        case["row_pick"] = draw(st.integers(0, 11))
        case["cell_pick"] = draw(st.integers(0, 11))
        case["value"] = draw(st.sampled_from(sorted(REPEAT_VALUES)))
        if draw(st.integers(0, 2)) == 0:
            # the broken count sits in the padding of empty rows office suites append to a sheet: still a broken file
            width = draw(st.integers(1, 3))
            for _ in range(draw(st.integers(1, 2))):
                sheets[case["sheet"]] = sheets[case["sheet"]] + [[""] * width]
            case["row_pick"] = "last"
    elif fault == "missing-sheet":
        case["beyond"] = draw(st.sampled_from([1, 1, 2, 7, 120]))
        if draw(st.integers(0, 2)) == 0:
            case["sheets"] = []  # a well-formed document without any sheet: every sheet number is missing
    elif fault == "not-zip":
        case["junk"] = draw(st.binary(min_size=0, max_size=40)).hex()
    return case


# -- reading ---------------------------------------------------------------------------------
def text_cid(width, sheet):
    cid = interface.Cid()
    rows = [["D", "Format", "ODS"], ["D", "Sheet", str(sheet)]]
    for index in range(max(1, width)):
        rows.append(["F", "f%d" % index, "", "X", "", "Text", ""])
    cid.read("c15", rows)
    return cid


def read_direct(path, sheet):
    """("rows", list) | ("DataFormatError", error) | ("exc", error)"""
    try:
        rows = []
        for row in rowio.ods_rows(path, sheet):
            # the caller keeps a copy and overwrites what it was given: that must not show in a row delivered later
            rows.append(list(row))
            row[:] = ["<overwritten by the consumer>"]
        return "rows", rows
    except errors.DataFormatError as error:
        return "DataFormatError", error
    except Exception as error:
        return "exc", error


def read_reader(path, sheet, width):
    try:
        cid = text_cid(width, sheet)
    except Exception as error:
        raise HarnessError("cannot build the all-Text ODS CID: %r" % (error,))
    try:
        return "rows", list(cutplace.rows(cid, path, on_error="yield"))
    except errors.DataFormatError as error:
        return "DataFormatError", error
    except Exception as error:
        return "exc", error


# -- oracle for well-formed files ---------------------------------------------------------------
def _strip(row):
    row = list(row)
    while row and row[-1] == "":
        row.pop()
    return row


def _canon_actual(rows):
    rows = [_strip(row) for row in rows]
    while rows and not rows[-1]:
        rows.pop()
    return rows


def _culprit(pieces, actual_text):
    pos = 0
    for kind, text in pieces:
        if actual_text.startswith(text, pos):
            pos += len(text)
        else:
            return kind
    return "extra" if pos < len(actual_text) else None


def diagnose(sheets, layouts, index, actual):
    """Discrepancies between ``actual`` (rows read for sheet ``index``) and the table given to the encoder:
    list of (signature, message), one per root-cause bucket; empty when the reading is right."""
    expected = sheets[index]
    layout = layouts[index]
    if not isinstance(actual, list) or any(not isinstance(row, list) for row in actual):
        return [("C15|result-type", "rows are not lists: %r" % (actual,))]
    want = enc_ods.canon(expected)
    got = _canon_actual(actual)
    if got == want:
        return []
    found = []

    def add(signature, message):
        if signature not in [s for s, _ in found]:
            found.append((signature, message))

    written = enc_ods.as_written(layout)
    has_row_runs = any(row["repeat"] > 1 for row in layout)
    if len(actual) == len(written) or len(got) == len(want):
        pairs = list(zip(written, actual, [r for row in layout for r in [row] * row["repeat"]]))
    elif has_row_runs and len(actual) == len(layout):
        add("C15|rows-repeated-ignored",
            "%d row elements standing for %d rows (table:number-rows-repeated) read as %d rows: %r" % (
                len(layout), len(written), len(actual), actual))
        pairs = [(enc_ods.as_written([dict(row, repeat=1)])[0], got_row, row) for row, got_row in zip(layout, actual)]
    else:
        add("C15|row-count|%s%s" % ("more" if len(got) > len(want) else "fewer", "|row-runs" if has_row_runs else ""),
            "expected %d rows %r, read %d rows %r" % (len(want), want, len(got), actual))
        pairs = []
    for row_number, (want_row, got_row, element) in enumerate(pairs, 1):
        want_cells = _strip(want_row)
        got_cells = _strip(got_row)
        if got_cells == want_cells:
            continue
        has_col_runs = any(cell["repeat"] > 1 for cell in element["cells"])
        unexpanded = _strip([cell["text"] for cell in element["cells"]])
        if has_col_runs and got_cells == unexpanded:
            add("C15|columns-repeated-ignored", "row %d: cell runs %r read as %r" % (
                row_number, [(c["repeat"], c["text"]) for c in element["cells"]], got_row))
            continue
        if len(got_cells) < len(want_cells) or len(got_cells) > len(want_row):
            add("C15|row-length|%s%s" % ("more" if len(got_cells) > len(want_cells) else "fewer",
                                         "|col-runs" if has_col_runs else ""),
                "row %d: expected %r, read %r" % (row_number, want_row, got_row))
            continue
        # same cells up to trailing empty ones: compare cell by cell (a trailing cell that is not '' shows up here)
        want_cells = want_cells + [""] * (len(got_cells) - len(want_cells))
        cells = [cell for cell in element["cells"] for _ in range(cell["repeat"])]
        for column, (want_text, got_text) in enumerate(zip(want_cells, got_cells), 1):
            if got_text == want_text:
                continue
            pieces = cells[column - 1]["pieces"]
            where = "row %d cell %d" % (row_number, column)
            if not isinstance(got_text, str):
                kind = _culprit(pieces, "") if want_text else None
                if kind in LOSS_KINDS:
                    add("C15|text-lost|%s" % kind, "%s: expected %r, read %r (pieces %r)" % (
                        where, want_text, got_text, pieces))
                else:
                    add("C15|cell-not-text|%s" % ("empty-paragraph" if pieces else "plain"),
                        "%s: expected %r, read %r of type %s" % (where, want_text, got_text, type(got_text).__name__))
                continue
            kind = _culprit(pieces, got_text)
            if kind in LOSS_KINDS:
                add("C15|text-lost|%s" % kind, "%s: expected %r, read %r (pieces %r)" % (
                    where, want_text, got_text, pieces))
            else:
                add("C15|cell-text|%s" % (kind or "plain"), "%s: expected %r, read %r (pieces %r)" % (
                    where, want_text, got_text, pieces))
    if not found:
        add("C15|table-differs", "expected %r, read %r" % (want, actual))
    generic = ("C15|row-count", "C15|row-length", "C15|cell-text", "C15|table-differs")
    if all(signature.startswith(generic) for signature, _ in found):
        # nothing the encoding features explain: is it simply another sheet of the file?
        for other, table in enumerate(sheets):
            if other != index and got == enc_ods.canon(table):
                return [("C15|wrong-sheet", "sheet %d requested, content of sheet %d returned: %r" % (
                    index + 1, other + 1, actual))]
    return found


def _uses(layouts, sheets):
    uses = set()
    for layout in layouts:
        for row in layout:
            if row["repeat"] > 1:
                uses.add("row-run")
            for cell in row["cells"]:
                if cell["repeat"] > 1:
                    uses.add("col-run" if cell["text"] else "col-run-empty")
                for kind, _ in cell["pieces"]:
                    if kind in LOSS_KINDS:
                        uses.add(kind)
    return uses


def _content_classes(sheets):
    classes = set()
    for table in sheets:
        if not table:
            classes.add("table:empty")
            continue
        lengths = set(len(row) for row in table)
        classes.add("table:ragged" if len(lengths) > 1 else "table:rectangular")
        if 0 in lengths:
            classes.add("table:row-without-cells")
        for row in table:
            if row and all(cell == "" for cell in row):
                classes.add("table:row-of-empty-cells")
            for cell in row:
                if cell == "":
                    classes.add("cell:empty")
                if any(ch in cell for ch in "<>&\"'"):
                    classes.add("cell:xml-special")
                if any(ord(ch) > 127 for ch in cell):
                    classes.add("cell:non-ascii")
                if any(ord(ch) > 0xFFFF for ch in cell):
                    classes.add("cell:astral")
                if "  " in cell:
                    classes.add("cell:multiple-blanks")
                if cell != cell.strip(" ") and cell.strip(" "):
                    classes.add("cell:leading/trailing-blank")
                if cell and not cell.strip(" "):
                    classes.add("cell:blanks-only")
                if "\t" in cell:
                    classes.add("cell:tab")
                if "\n" in cell:
                    classes.add("cell:line-break")
    return classes


def _build(case, fault=None):
    try:
        built = enc_ods.build(case["sheets"], case["options"], fault)
        if fault is None:
            decoded = enc_ods.decode(built["content"])
            if decoded != [enc_ods.as_written(layout) for layout in built["layout"]] or [
                    enc_ods.canon(table) for table in decoded] != [enc_ods.canon(table) for table in case["sheets"]]:
                raise ValueError("reference reader sees %r" % (decoded,))
    except Exception as error:
        raise HarnessError("encoder self-test failed for %r: %s: %s" % (case, type(error).__name__, error))
    return built


def _write(tmpdir, data, name="data.ods"):
    path = os.path.join(tmpdir, name)
    with open(path, "wb") as f:
        f.write(data)
    return path


def check_table_case(sub, case):
    sheets = case["sheets"]
    built = _build(case)
    layouts = built["layout"]
    uses = _uses(layouts, sheets)
    classes = ["sheets:%d" % len(sheets), "enc:" + case["options"]["encoding"],
               "span-mode:" + case["options"]["span_mode"]]
    classes += ["uses:" + u for u in sorted(uses)] + sorted(_content_classes(sheets))
    classes += ["opt:%s" % name for name, value in sorted(case["options"].items()) if value is True]
    canons = [enc_ods.canon(table) for table in sheets]
    if len(sheets) > 1 and len(set(repr(c) for c in canons)) == len(sheets):
        classes.append("sheets:all-distinct")
    tmpdir = reused_dir("c15")
    try:
        path = _write(tmpdir, built["archive"])
        for index in range(len(sheets)):
            only = case.get("only_sheet")
            if only is not None and only != index:
                continue
            one = dict(case, only_sheet=index)
            sub.evaluations += 1
            status, result = read_direct(path, index + 1)
            if status == "DataFormatError":
                sub.fail("C15|rejected|%s" % norm_message(result), one,
                         "well-formed ODS rejected when reading sheet %d: %s" % (index + 1, result))
                continue
            if status == "exc":
                sub.fail("C15|exc|%s|ods_rows" % type(result).__name__, one,
                         "ods_rows raised %s: %s" % (type(result).__name__, result))
                continue
            findings = diagnose(sheets, layouts, index, result)
            for signature, message in findings:
                sub.fail(signature, one, "ods_rows(path, %d): %s" % (index + 1, message))
            if findings:
                classes.append("read:wrong")
                continue  # the reader path would only repeat the same root cause
            classes.append("read:exact-as-written" if result == enc_ods.as_written(layouts[index])
                           else "read:equal-modulo-trailing-empties")
            # the same sheet through cutplace.rows under an all-Text CID
            width = max([len(row) for row in result] + [1])
            sub.evaluations += 1
            status, outputs = read_reader(path, index + 1, width)
            if status != "rows":
                sub.fail("C15|reader|%s" % type(outputs).__name__, one,
                         "cutplace.rows raised %s: %s although ods_rows reads the sheet" % (
                             type(outputs).__name__, outputs))
                continue
            if len(outputs) != len(result):
                sub.fail("C15|reader|row-count", one, "cutplace.rows yields %d items for %d rows: %r" % (
                    len(outputs), len(result), outputs))
                continue
            for number, (row, output) in enumerate(zip(result, outputs), 1):
                if isinstance(output, Exception):
                    if len(row) == width:
                        sub.fail("C15|reader|row-rejected|%s" % type(output).__name__, one,
                                 "row %d %r of sheet %d rejected by an all-Text CID: %s" % (
                                     number, row, index + 1, output))
                    else:
                        classes.append("reader:short-row-reported")
                elif output != row:
                    sub.fail("C15|reader|row-differs", one, "row %d of sheet %d: ods_rows %r, cutplace.rows %r" % (
                        number, index + 1, row, output))
                else:
                    classes.append("reader:row-equal" if len(row) == width else "reader:short-row-passed")
    finally:
        shutil.rmtree(tmpdir, ignore_errors=True)
    key = ("table", sheets, sorted(case["options"].items()))
    sample = {"sheets": sheets, "options": {k: v for k, v in case["options"].items() if v not in (False, "none")},
              "uses": sorted(uses)}
    sub.case(key, bool(uses), sorted(set(classes)), sample=sample, evals=0)


# -- faults --------------------------------------------------------------------------------------
def _expect_format_error(sub, case, kind, detail, path, sheet, classes):
    """Both observation points must raise DataFormatError for the file at ``path``."""
    sub.evaluations += 1
    status, result = read_direct(path, sheet)
    if status != "DataFormatError":
        outcome = "no-error" if status == "rows" else type(result).__name__
        sub.fail("C15|fault|%s|%s" % (kind, outcome), dict(case, only=detail),
                 "fault %s (%s), ods_rows(path, %d): expected DataFormatError, got %s" % (
                     kind, detail, sheet, ("rows %r" % (result,)) if status == "rows" else
                     "%s: %s" % (type(result).__name__, result)))
        classes.add("fault-outcome:" + outcome)
        return
    classes.add("fault-outcome:DataFormatError")
    sub.evaluations += 1
    status, result = read_reader(path, sheet, 1)
    if status != "DataFormatError":
        outcome = "no-error" if status == "rows" else type(result).__name__
        sub.fail("C15|fault|%s|%s|reader" % (kind, outcome), dict(case, only=detail),
                 "fault %s (%s), cutplace.rows under Sheet %d: expected DataFormatError, got %s" % (
                     kind, detail, sheet, ("items %r" % (result,)) if status == "rows" else
                     "%s: %s" % (type(result).__name__, result)))


NOT_ZIP = [b"", b"PK", b"PK\x03\x04", b"hello, world\n", b"a,b\n1,2\n", b"\x00" * 64,
           b"<?xml version='1.0'?><office:document-content/>", b"PK\x03\x04" + b"\x14\x00" * 20,
           b"\x1f\x8b\x08\x00" + b"\x00" * 20, b"\xd0\xcf\x11\xe0\xa1\xb1\x1a\xe1" + b"\x00" * 40]


def check_fault_case(sub, case):
    fault = case["fault"]
    sheets = case["sheets"]
    only = case.get("only")
    classes = set(["fault:" + fault])
    instances = 0
    tmpdir = reused_dir("c15")
    try:
        if fault == "truncated":
            data = _build(case)["archive"]
            sheet = 1 + len(data) % len(sheets)
            for offset in range(0, len(data), 64):
                if only is None or only == offset:
                    instances += 1
                    _expect_format_error(sub, case, fault, offset, _write(tmpdir, data[:offset]), sheet, classes)
        elif fault == "not-zip":
            content = _build(case)["content"]
            variants = NOT_ZIP + [content, bytes.fromhex(case.get("junk", ""))]
            for number, data in enumerate(variants):
                if b"PK\x05\x06" in data:
                    continue
                if only is None or only == number:
                    instances += 1
                    _expect_format_error(sub, case, fault, number, _write(tmpdir, data), 1, classes)
        elif fault == "no-content":
            content = _build(case)["content"]
            variants = [enc_ods.archive(None), enc_ods.archive(content, True, "Content.xml"),
                        enc_ods.archive(content, True, "sub/content.xml"),
                        enc_ods.archive(content, False, "content.xml.bak")]
            for number, data in enumerate(variants):
                if only is None or only == number:
                    instances += 1
                    _expect_format_error(sub, case, fault, number, _write(tmpdir, data), 1, classes)
        elif fault == "member-damaged":
            # the archive's directory at the end stays intact; the member content.xml it points to does not
            import struct
            import zipfile

            data = _build(case)["archive"]
            with zipfile.ZipFile(io.BytesIO(data)) as archive_:
                info = archive_.getinfo("content.xml")
            at = info.header_offset
            name_length, extra_length = struct.unpack("<HH", data[at + 26:at + 30])
            start = at + 30 + name_length + extra_length
            size = info.compress_size
            middle = start + size // 2
            variants = [
                ("header-magic", data[:at] + b"XX" + data[at + 2:]),
                ("header-zeroed", data[:at] + b"\x00" * 30 + data[at + 30:]),
                ("crc-changed", data[:at + 14] + bytes(b ^ 0xFF for b in data[at + 14:at + 18]) + data[at + 18:]),
                ("method-changed", data[:at + 8] + (b"\x00\x00" if info.compress_type else b"\x08\x00") + data[at + 10:]),
                ("payload-first-byte", data[:start] + bytes([data[start] ^ 0xFF]) + data[start + 1:]),
                ("payload-middle", data[:middle] + bytes(b ^ 0x55 for b in data[middle:middle + 4]) + data[middle + 4:]),
                ("payload-zeroed", data[:start] + b"\x00" * size + data[start + size:]),
                ("payload-last-byte", data[:start + size - 1] + bytes([data[start + size - 1] ^ 0xFF]) + data[start + size:]),
            ]
            sheet = 1 + len(data) % len(sheets)
            for detail, damaged in variants:
                if only is None or only == detail:
                    # leave out damage that happens to yield the same file, or one zipfile still reads as the original
                    try:
                        with zipfile.ZipFile(io.BytesIO(damaged)) as archive_:
                            if archive_.read("content.xml") == _build(case)["content"]:
                                classes.add("fault-harmless")
                                continue
                    except Exception:
                        pass
                    instances += 1
                    _expect_format_error(sub, case, fault, detail, _write(tmpdir, damaged), sheet, classes)
        elif fault in ("xml-cut", "xml-malformed"):
            built = _build(case)
            xml = built["xml"]
            encoding = case["options"]["encoding"]
            deflate = case["options"]["deflate"]
            if fault == "xml-cut":
                variants = [(offset, xml[:offset]) for offset in [0] + enc_ods.tag_boundaries(xml)]
            else:
                close = xml.rindex("</table:table>")
                variants = [
                    (0, xml.replace("</office:body>", "</office:spreadsheet>", 1)),
                    (1, xml[:close] + "&" + xml[close:]),
                    (2, xml[:close] + "<table:table-row>" + xml[close:]),
                    (3, xml[:close] + "<table:table-row table:x=1/>" + xml[close:]),
                    (4, xml + "<office:document-content/>"),
                    (5, xml.replace("xmlns:table=", "xmlns:tabel=", 1)),
                    (6, xml[:close] + "\x01" + xml[close:]),
                ]
            sheet = 1 + len(xml) % len(sheets)
            for detail, text in variants:
                if only is None or only == detail:
                    instances += 1
                    data = enc_ods.archive(enc_ods.encode_xml(text, encoding), deflate)
                    _expect_format_error(sub, case, fault, detail, _write(tmpdir, data), sheet, classes)
        elif fault in ("col-repeat", "row-repeat"):
            layout = _build(case)["layout"][case["sheet"]]
            row = len(layout) - 1 if case["row_pick"] == "last" else case["row_pick"] % len(layout)
            cell = case["cell_pick"] % len(layout[row]["cells"])
            spec = {"kind": fault, "sheet": case["sheet"], "row": row, "cell": cell, "value": case["value"]}
            data = _build(case, spec)["archive"]
            kind = "%s:%s" % (fault, REPEAT_VALUES[case["value"]])
            classes.add("fault:" + kind)
            classes.add("fault-at:%s" % ("padding" if case["row_pick"] == "last" else "first" if row == 0 else "later")
                        + "-row")
            instances += 1
            _expect_format_error(sub, case, kind, case["value"], _write(tmpdir, data), case["sheet"] + 1, classes)
        elif fault == "missing-sheet":
            data = _build(case)["archive"]
            sheet = len(sheets) + case["beyond"]
            instances += 1
            _expect_format_error(sub, case, fault, sheet, _write(tmpdir, data), sheet, classes)
        else:
            raise HarnessError("unknown fault %r" % fault)
    finally:
        shutil.rmtree(tmpdir, ignore_errors=True)
    classes.add("fault-instances:%s" % ("1" if instances <= 1 else "2-9" if instances < 10 else
                                        "10-99" if instances < 100 else "100+"))
    key = ("fault", fault, sheets, sorted(case["options"].items()),
           [case.get(name) for name in ("sheet", "row_pick", "cell_pick", "value", "beyond", "junk")])
    sub.case(key, True, sorted(classes), evals=0,
             sample={"fault": fault, "sheets": sheets, "instances": instances,
                     "value": case.get("value"), "beyond": case.get("beyond")})


# -- fixed corpus: the smallest table on which each feature matters, then every feature alone on one table -----
def _table_case(sheets, **changes):
    return {"kind": "table", "sheets": sheets, "options": enc_ods.options(**changes)}


_T = [["a", "a", "", "", "x  y", " b ", "t\tu"], ["l1\nl2", "<&>\"'", "\u00e4\u20ac\u4e2d\U0001f600", "p q"], ["r"],
      ["r"], ["", "e"]]
CORPUS = [
    _table_case([[["a"]]]),
    _table_case([[["r"], ["r"]]], row_runs=True),
    _table_case([[["r"], ["r"], ["r"], ["s"], [""], [""], ["t"]]], row_runs=True),
    _table_case([[["a", "a"]]], col_runs=True),
    _table_case([[["", "", "", "b", "b", "b", "", "c"]]], col_runs=True),
    _table_case([[["r", "r"], ["r", "r"], ["r", "r"]]], row_runs=True, col_runs=True),
    # runs longer than the sheets of older applications are wide (256, 1024 columns) or high (65536 rows)
    _table_case([[["w"] * 1030]], col_runs=True),
    _table_case([[[""] * 1025 + ["x"], ["a"] + [""] * 255 + ["b"] * 257]], col_runs=True),
    _table_case([[["a"] + [""] * 16382 + ["z"]]], col_runs=True),
    _table_case([[["r", "s"]] * 1100 + [["", ""]] * 300 + [["t", ""]]], row_runs=True),
    _table_case([[["x  y"]]]),
    _table_case([[["x  y"]]], ws_runs_whole=True),
    _table_case([[["x y"]]], ws_all=True),
    _table_case([[[" a"]]]),
    _table_case([[["a "]]]),
    _table_case([[["a    b"]]], ws_count=False),
    _table_case([[["a\tb"]]]),
    _table_case([[["a\nb"]]]),
    _table_case([[["a\nb"]]], paragraphs=True),
    _table_case([[["a\n\n b"]]], paragraphs=True),
    _table_case([[["a"]]], span_mode="whole"),
    _table_case([[["abc"]]], span_mode="alt", span_len=1),
    _table_case([[["abc"]]], span_mode="alt", span_len=1, span_first=False),
    _table_case([[["abc"]]], span_mode="nested", span_len=1),
    _table_case([[["", "b"]]], empty_p=True),
    _table_case([[["<&>\"'"]]]),
    _table_case([[["<&>\"'"]]], quote_entities=True),
    _table_case([[["one"]], [], [["three", ""], ["", "3"]]]),
    _table_case([[["one"]], [["two"]], [["three"]]], indent=True),
    _table_case([[], [[], ["x"]]], bare_empty=True),
    _table_case([[], [[], ["x"]]]),
    _table_case([_T]),
]
CORPUS.append(_table_case([_T], annotations=True))
CORPUS.append(_table_case([_T, [["x", "y"], ["z"]]], subtables=True))
CORPUS.append(_table_case([_T, [["x"]]], unnamed=True))
for _name in ("col_runs", "row_runs", "ws_all", "ws_runs_whole", "paragraphs", "empty_p", "quote_entities", "indent",
              "bare_empty"):
    CORPUS.append(_table_case([_T], **{_name: True}))
for _name in ("value_type", "ws_count", "deflate"):
    CORPUS.append(_table_case([_T], **{_name: False}))
for _containers in ("header", "group", "all"):
    CORPUS.append(_table_case([_T], row_containers=_containers))
    CORPUS.append(_table_case([_T, [["a"], ["b"], ["c"], ["d"], ["e"]]], row_containers=_containers, row_runs=True))
CORPUS.append(_table_case([_T], indent=True, indent_cells=True))
CORPUS.append(_table_case([_T], indent=True, indent_cells=True, paragraphs=True))
for _mode in ("whole", "alt", "nested"):
    CORPUS.append(_table_case([_T], span_mode=_mode, span_len=2))
for _encoding in enc_ods.ENCODINGS:
    CORPUS.append(_table_case([[["\u00e4\u20ac\u4e2d\U0001f600<"]]], encoding=_encoding))
    CORPUS.append(_table_case([_T], encoding=_encoding))
for _kind in FAULT_KINDS:
    _case = {"kind": "fault", "fault": _kind, "sheets": [[["a", "b"], ["c"]], [["2"]]], "options": enc_ods.options()}
    if _kind in ("col-repeat", "row-repeat"):
        for _value in sorted(REPEAT_VALUES):
            CORPUS.append(dict(_case, sheet=1, row_pick=0, cell_pick=0, value=_value))
            CORPUS.append(dict(_case, sheet=0, row_pick=1, cell_pick=1, value=_value))
        continue
    if _kind == "missing-sheet":
        _case["beyond"] = 1
        CORPUS.append(dict(_case, sheets=[]))
        CORPUS.append(dict(_case, sheets=[], beyond=2))
    CORPUS.append(_case)


def check_case(sub, case):
    if case["kind"] == "table":
        check_table_case(sub, case)
    else:
        check_fault_case(sub, case)


def run(ctx):
    sub = ctx.sub("corpus")
    for case in CORPUS:
        check_case(sub, case)
    ctx.merge(sub)
    ctx.hyp("tables", table_cases, check_table_case, ctx.n(2400, 60000))
    ctx.hyp("faults", fault_cases, check_fault_case, ctx.n(480, 8000))


def replay(sub, case):
    check_case(sub, case)
