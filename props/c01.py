"""C01 - range descriptions accept exactly the values they describe."""
import itertools
from decimal import Decimal

from vlib import gen_range
from vlib.runner import norm_message
from vlib.gen_range import member, overall_limits

from cutplace import errors, ranges

PROPERTY_ID = "C01"
RULE = (
    "Hypothesis: descriptions of 1-4 non-overlapping items generated from an item list (limits spelled as decimal, "
    "0x-hex with mixed case, quoted char, escaped char, symbolic name; separators '...', ':' and U+2026; optional "
    "blanks) for Range, and decimal limits (0-3 fractional digits) for DecimalRange, each probed with every limit, "
    "its neighbours, mid points, far values and random values; a further family draws all limits from 17 code points "
    "whose quoted spelling contains a grammar character (both quotes, backslash, the separators, comma, minus, '#', "
    "blank, digits, 'x', 't') and spells most of them quoted or escaped, another has up to 14 items in any order, another takes its limits from 32 code points that Unicode "
    "normalisation or case mapping would change (OHM SIGN, KELVIN SIGN, compatibility ideographs, ligatures, ...). "
    "Exhaustive: all 1-2 item descriptions with limits in "
    "{-2..2, none} x 3 separator spellings x all values -4..4. Thorough only: 12 atheris campaigns (coverage-guided, "
    "bytes decoded to text or to a token sequence) whose target holds a reference recogniser of the documented "
    "grammar and the same oracle. A case is one (description, probe set); it is "
    "non-trivial when it has >= 2 items, an open side, a non-decimal spelling or a separator other than '...'; "
    "distinctness is by hash of (description, kind)."
    "Every description is also constructed with a second (default) parameter, which has no say; quoted limits include control characters and line-separator look-alikes written literally."
    "Integer probes include +-10^5000."
)
ASSUMPTIONS = [
    "items of a description do not overlap (the property's domain)",
    "limits are spelled without leading zeros, without the u-prefix and without blanks between '-' and the number",
    "probe values are int (Range) or decimal.Decimal (DecimalRange)",
]
EXHAUSTIVE = True
EXHAUSTIVE_SCOPE = "all 1-2 item descriptions with limits in {-2..2, none}, 3 separator spellings, values -4..4"


def _norm_message(error):
    return norm_message(error)


def _decode_probe(shown):
    """A probe as the case holds it: a number, or '10**5000' / '-10**5000' for numbers too long to be written out."""
    if isinstance(shown, str) and "**" in shown:
        sign = -1 if shown.startswith("-") else 1
        base, _, exponent = shown.lstrip("-").partition("**")
        if base != "10" or not exponent.isdigit() or int(exponent) > 20000:
            raise ValueError("malformed probe %r" % (shown,))
        return sign * 10 ** int(exponent)
    return shown


def check_case(sub, case):
    kind = case["kind"]
    description = case["description"]
    if kind == "int":
        items = [tuple(it) for it in case["items"]]
        probes = case["probes"]
        cls = ranges.Range
    else:
        items = [tuple(None if v is None else Decimal(v) for v in it) for it in case["items"]]
        probes = [Decimal(p) for p in case["probes"]]
        cls = ranges.DecimalRange
    spellings = case.get("spellings", [])
    nontrivial = (
        len(items) >= 2
        or any(lo is None or hi is None for lo, hi in items)
        or any(s in spellings for s in ("hex", "quoted", "escaped", "symbolic", "sepcolon", "sepchar"))
    )
    classes = ["kind:" + kind, "items:%d" % len(items)] + ["spelling:" + s for s in spellings]
    if any(lo is None or hi is None for lo, hi in items):
        classes.append("has-open")
    sub.case((kind, description), nontrivial, classes,
             sample={"kind": kind, "description": description, "items": case["items"], "probes": len(probes)})
    try:
        rng = cls(description)
    except Exception as error:  # the property says: is accepted
        sub.fail("C01|construct|%s|%s" % (type(error).__name__, _norm_message(error)), case,
                 "well-formed description %r rejected: %s: %s" % (description, type(error).__name__, error))
        return
    actual_items = rng.items
    if actual_items is None or sorted(map(_key, actual_items)) != sorted(map(_key, items)):
        sub.fail("C01|items|" + kind, case, "items of %r are %r, expected %r" % (description, actual_items, items))
        return
    lower, upper = overall_limits(items)
    if rng.lower_limit != lower or rng.upper_limit != upper:
        sub.fail("C01|limits|" + kind, case, "limits of %r are (%r, %r), expected (%r, %r)" % (
            description, rng.lower_limit, rng.upper_limit, lower, upper))
    _check_sibling(sub, case, cls, kind, description)
    _check_default_ignored(sub, case, cls, kind, description, items)
    if kind == "int":
        # values of more digits than Python converts to text (4300): inside or outside like any other value
        probes = list(probes) + ["10**5000", "-10**5000"]
    for shown in list(probes) + list(reversed(probes)):
        probe = _decode_probe(shown)
        expected = member(items, probe)
        sub.evaluations += 1
        try:
            result = rng.validate("x", probe)
            accepted = True
            if result is not None:
                sub.fail("C01|validate-returns|" + kind, case, "validate returned %r" % (result,))
        except errors.RangeValueError as error:
            accepted = False
            if type(error) is not errors.RangeValueError:
                sub.fail("C01|exc-type|" + type(error).__name__, case, "raised %r" % error)
        except Exception as error:
            sub.fail("C01|exc-type|" + type(error).__name__, case,
                     "validate(%s) on %r raised %s: %s" % (shown, description, type(error).__name__, error))
            continue
        if accepted != expected:
            sig = "C01|member|%s|%s" % (kind, "accepted-outside" if accepted else "rejected-inside")
            sub.fail(sig, dict(case, probes=[str(probe) if kind == "dec" else shown]),
                     "%r: value %s %s but %s" % (description, shown,
                                                 "accepted" if accepted else "rejected",
                                                 "lies outside every item" if accepted else "lies inside an item"))


# the second parameter of Range / DecimalRange: a description to use when the first one is empty; it has no say in
# what a non-empty description means
_DEFAULTS = ["0...9", "-1000...1000", "5...", "...5", "1", "-2147483648...2147483647", "...-1, 1..."]


def _check_default_ignored(sub, case, cls, kind, description, items):
    default = case.get("default", _DEFAULTS[(len(description) + len(items)) % len(_DEFAULTS)])
    sub.evaluations += 1
    try:
        rng = cls(description, default)
    except Exception as error:
        sub.fail("C01|with-default|construct|%s" % type(error).__name__, dict(case, default=default),
                 "%r rejected when a default %r is passed along: %s" % (description, default, error))
        return
    lower, upper = overall_limits(items)
    if rng.items is None or sorted(map(_key, rng.items)) != sorted(map(_key, items)) \
            or rng.lower_limit != lower or rng.upper_limit != upper:
        sub.fail("C01|with-default|items|" + kind, dict(case, default=default),
                 "%s(%r, default=%r) has items %r and limits (%r, %r), expected %r and (%r, %r)" % (
                     cls.__name__, description, default, rng.items, rng.lower_limit, rng.upper_limit, items, lower,
                     upper))


def _check_sibling(sub, case, cls, kind, description):
    """Construction must not depend on what was constructed before: build the description with swapped letter
    case (the reference recogniser says what it means: hex digits and symbolic names do not change, quoted letters
    do) and then the original again; both must still be read on their own terms."""
    from vlib import fuzz_range

    sibling = description.swapcase()
    if sibling == description:
        return
    try:
        wanted = fuzz_range.recognise(sibling, kind == "dec")
    except fuzz_range.NoClaim:
        return
    sub.evaluations += 1
    for text, reference in ((sibling, wanted), (description, None)):
        try:
            rng = cls(text)
        except Exception as error:
            if reference is not None:
                sub.fail("C01|sibling|construct|%s" % type(error).__name__, dict(case, sibling=sibling),
                         "case variant %r of %r rejected: %s" % (sibling, description, error))
            return
        if reference is None:
            try:
                reference = fuzz_range.recognise(description, kind == "dec")
            except fuzz_range.NoClaim:
                return
        if rng.items is None or sorted(map(_key, rng.items)) != sorted(map(_key, reference)):
            sub.fail("C01|sibling|items|" + kind, dict(case, sibling=sibling),
                     "after constructing %r and %r one after the other, items of %r are %r, expected %r" % (
                         description, sibling, text, rng.items, reference))
            return


def _key(item):
    lo, hi = item
    return (lo is None, 0 if lo is None else lo, hi is None, 0 if hi is None else hi)


# -- exhaustive small sweep -----------------------------------------------------
def _small_items():
    values = [-2, -1, 0, 1, 2]
    items = []
    for v in values:
        items.append((v, v, False))
    for lo in values:
        for hi in values:
            if lo <= hi:
                items.append((lo, hi, True))
    for v in values:
        items.append((None, v, True))
        items.append((v, None, True))
    return items


def _spell_item(item, sep):
    lo, hi, ranged = item
    if not ranged:
        return str(lo)
    return ("" if lo is None else str(lo)) + sep + ("" if hi is None else str(hi))


def _overlap(a, b):
    alo = -10 if a[0] is None else a[0]
    ahi = 10 if a[1] is None else a[1]
    blo = -10 if b[0] is None else b[0]
    bhi = 10 if b[1] is None else b[1]
    return not (ahi < blo or bhi < alo)


def _sweep_descriptions():
    items = _small_items()
    seps = gen_range.SEPARATORS
    for item in items:
        for sep in (seps if item[2] else ("",)):
            yield [item], _spell_item(item, sep)
    for a, b in itertools.product(items, items):
        if _overlap(a, b):
            continue
        for sa in (seps if a[2] else ("",)):
            for sb in (seps if b[2] else ("",)):
                yield [a, b], _spell_item(a, sa) + ", " + _spell_item(b, sb)


def _sweep_shard(args):
    from vlib.runner import Sub

    index, count = args
    sub = Sub("sweep")
    for number, (items, description) in enumerate(_sweep_descriptions()):
        if number % count != index:
            continue
        for kind in ("int", "dec"):
            plain = [[lo, hi] for lo, hi, _ in items]
            if kind == "dec":
                plain = [[None if v is None else str(v) for v in it] for it in plain]
                probes = [str(v) for v in range(-4, 5)] + ["-2.5", "0.5", "2.5"]
            else:
                probes = list(range(-4, 5))
            case = {"kind": kind, "description": description, "items": plain, "probes": probes,
                    "spellings": ["sweep"]}
            local = Sub("sweep")
            check_case(local, case)
            local.samples = local.samples[:1] if number % 997 == 0 else []
            sub.merge(local)
    return sub


def _fuzz_worker(args):
    """One atheris campaign in a subprocess (atheris.Fuzz() never returns); semantic oracle inside the target."""
    import json
    import os
    import shutil
    import subprocess
    import sys
    import tempfile

    from vlib.runner import VERIF, Sub

    seed, runs = args
    sub = Sub("atheris")
    scratch = tempfile.mkdtemp(prefix="c01-fuzz-")
    try:
        out = os.path.join(scratch, "out.json")
        corpus = os.path.join(scratch, "corpus")
        os.makedirs(corpus)
        for number, text in enumerate(["1...5", "0x10:0x20, 'a'…'z'", "...-0xDeadBeef", "Tab, lf...CR, 32...", "-1.5...-0.5, 0.25:"]):
            with open(os.path.join(corpus, "seed%d" % number), "wb") as f:
                f.write(bytes([number % 2]) + text.encode("utf-8"))
        env = dict(os.environ, PYTHONPATH=VERIF + os.pathsep + os.path.join(VERIF, ".deps"))
        proc = subprocess.run([sys.executable, "-m", "vlib.fuzz_range", out, "-runs=%d" % runs, "-seed=%d" % seed,
                               "-artifact_prefix=" + scratch + os.sep, "-max_len=96", corpus],
                              cwd=VERIF, env=env, stdout=subprocess.PIPE, stderr=subprocess.STDOUT, text=True)
        if "No module named 'atheris'" in proc.stdout or "cannot import name" in proc.stdout:
            sub.notes["atheris"] = "not available: fuzz campaign skipped"
            return sub
        stats = {}
        if os.path.exists(out + ".stats"):
            stats = json.load(open(out + ".stats"))
        sub.bulk(stats.get("executions", 0), 0, {"atheris:executions": stats.get("executions", 0),
                                               "atheris:in-grammar": stats.get("claims", 0)})
        for text in stats.get("samples", [])[:2]:
            sub.samples.append({"atheris_in_grammar_text": text})
        if os.path.exists(out):
            found = json.load(open(out))
            sub.fail(found["signature"], found["case"], found["message"])
        elif proc.returncode != 0:
            sub.notes["atheris"] = "campaign ended with exit %d: %s" % (proc.returncode, proc.stdout[-300:])
    finally:
        shutil.rmtree(scratch, ignore_errors=True)
    return sub


def run(ctx):
    # corpus of hand-picked regression descriptions (quoted ellipsis, boundaries, ...)
    sub = ctx.sub("corpus")
    for case in CORPUS:
        check_case(sub, case)
    ctx.merge(sub)
    ctx.par(_sweep_shard, [(i, ctx.workers) for i in range(ctx.workers)])
    ctx.hyp("range", gen_range.int_range_cases, check_case, ctx.n(3000, 100000))
    ctx.hyp("decimal-range", gen_range.dec_range_cases, check_case, ctx.n(1500, 50000))
    small = lambda: gen_range.int_range_cases(limits=gen_range.st.integers(-6, 6))  # noqa: E731
    ctx.hyp("range-small", small, check_case, ctx.n(1000, 30000))
    ctx.hyp("range-meta-chars", gen_range.meta_char_range_cases, check_case, ctx.n(2000, 60000))
    ctx.hyp("range-unstable-chars", gen_range.unstable_char_range_cases, check_case, ctx.n(600, 20000))
    many = lambda: gen_range.int_range_cases(14, gen_range.st.integers(-400, 400))  # noqa: E731
    ctx.hyp("range-many-items", many, check_case, ctx.n(800, 30000))
    if not ctx.quick:
        # coverage-guided supplement (thorough only; approximately reproducible from the seed, the saved failing
        # text is the exactly reproducible unit)
        ctx.par(_fuzz_worker, [(ctx.seed * 100 + i + 1, 400000) for i in range(12)])


def replay(sub, case):
    if "fuzz_text" in case:
        from vlib import fuzz_range

        verdict = fuzz_range.judge(case["fuzz_text"], case["decimal"], ranges, errors)
        sub.evaluations += 1
        if verdict is not None:
            sub.fail(verdict[0], case, verdict[1])
        return
    check_case(sub, case)


CORPUS = [
    {"kind": "int", "description": "1...5", "items": [[1, 5]], "probes": [0, 1, 3, 5, 6], "spellings": ["sepdots"]},
    {"kind": "int", "description": "1:5", "items": [[1, 5]], "probes": [0, 1, 3, 5, 6], "spellings": ["sepcolon"]},
    {"kind": "int", "description": "1…5", "items": [[1, 5]], "probes": [0, 1, 3, 5, 6], "spellings": ["sepchar"]},
    {"kind": "int", "description": "...-0xDeadBeef", "items": [[None, -3735928559]],
     "probes": [-3735928560, -3735928559, -3735928558, 0], "spellings": ["hex"]},
    {"kind": "int", "description": "\"A\"...\"Z\", \"a\"...\"z\"", "items": [[65, 90], [97, 122]],
     "probes": [64, 65, 90, 91, 96, 97, 122, 123], "spellings": ["quoted"]},
    {"kind": "int", "description": "'…'", "items": [[0x2026, 0x2026]], "probes": [0x2025, 0x2026, 0x2027],
     "spellings": ["quoted"]},
    {"kind": "int", "description": "'…'…'\\u2030'", "items": [[0x2026, 0x2030]],
     "probes": [0x2025, 0x2026, 0x2030, 0x2031], "spellings": ["quoted", "escaped", "sepchar"]},
    {"kind": "int", "description": "Tab, lf...CR, 32...", "items": [[9, 9], [10, 13], [32, None]],
     "probes": [8, 9, 10, 13, 14, 31, 32, 1000], "spellings": ["symbolic"]},
    {"kind": "dec", "description": "0...299.99", "items": [["0", "299.99"]],
     "probes": ["-0.01", "0", "1.72", "299.99", "300"], "spellings": ["decimal"]},
    {"kind": "dec", "description": "-1.5…-0.5, 0.25:", "items": [["-1.5", "-0.5"], ["0.25", None]],
     "probes": ["-1.51", "-1.5", "-0.5", "-0.49", "0.24", "0.25", "99"], "spellings": ["decimal", "sepchar"]},
]
