"""C17 - the storage format of CID and data does not change the verdict."""
import copy
import os
import shutil
import tempfile

from hypothesis import strategies as st

from props import c04
from vlib import cidlib, enc_ods, enc_xlsx, gen_tables, model_fields, model_validio
from vlib.runner import norm_message, reused_dir

import cutplace
from cutplace import errors

PROPERTY_ID = "C17"
RULE = (
    "Hypothesis: a CID spec (1-5 fields of all types incl. Decimal and DateTime, optional IsUnique / DistinctCount, "
    "header 0-2) and a table of text cells from the fields' accepted / rejected pools, in half of the cases with 1-3 "
    "cells replaced by texts the model has no opinion on (number-, date-, boolean-like, padded, non-ASCII digits; then "
    "only the agreement of the nine runs is judged); the CID optionally carries comment rows full of characters that "
    "are item delimiters in some CSV dialect. The CID rows are stored as "
    "CSV text, ODS and XLSX, once per data format {Delimited, ODS, Excel} (9 CID files), loaded with "
    "cutplace.Cid(path); the table is stored as delimited text, ODS and XLSX and read under the CID whose Format "
    "names that storage: 3 x 3 runs per case. Oracle (differential + model): the three CIDs loaded for one data "
    "format are equivalent (format settings, field names in order, per field class / empty flag / length / rule, "
    "checks with class and rule); the nine runs agree on the per-row verdict (accept / error class / column) and "
    "on the returned values, and agree with vlib/model_validio. Non-trivial: a case with a Decimal or DateTime "
    "field or >= 1 rejected row; distinct by hash of (CID rows, table)."
    "CIDs may restrict the allowed characters; Text cells may span lines; check descriptions may have blanks at their edges."
    "Percent texts; lengths no cell reaches (lower limits of 32767 and more)."
)
ASSUMPTIONS = [
    "rows have exactly one cell per field and a non-empty last cell (xlsx pads, ODS/XLSX cannot store trailing "
    "empties): ragged rows are storage-specific and belong to C04",
    "cells for which the reference verdict itself depends on the format (the documented ' 00:00:00' suffix of Excel "
    "dates) are neutral",
    "only properties that apply to all three formats are set (Header)",
]

WILD_TEXTS = ["1e+16", "1E5", "1e3", "1.0", "1.", ".5", "0x10", " 12", "12 ", "+5", "-0", "1_0", "\u0661\u0662", "\uff11\uff12",
              "1,000", "1.000", "007", "TRUE", "true", "12:00:00", "1900-01-01", "NaN", "inf", "-inf", "1e400",
              "12345678901234567890", "1.2345678901234568e+16", "3.0e+0", "1 000", "\xa012", "=1+1", "'12",
              # more than one line
              "two\nlines", "x\n", "\nx", "a\n\nb"]
# what spreadsheet programs and float formatting make of big or fractional numbers
WILD_NUMBERS = ["17.5%", "100%", "5 %", "1e+16", "-3e+17", "1e+10", "1.2345678901234568e+16", "1E+16", "1e16", "2e+05", "1.5e+3", "12e+16",
                "1e-05", "1.0", "100.0", "1.00", "5.", "1,0", "1.0E+3"]
WILD_MOMENTS = ["2024-05-06 12:34:56", "1899-12-31 12:00:00", "1900-01-01 00:00:00", "12:34:56", "2024-05-06", "00:00:00",
                "2024-05-06 00:00:00", "2024-05-06T12:34:56", "12:34", "45432", "45432.5", "0.5", "06.05.2024 00:00:00",
                "12:34:56 00:00:00", "2024-05-06 12:34:56.789000"]
STORAGES = ("csv", "ods", "xlsx")
DATA_FORMATS = ("delimited", "ods", "excel")


@st.composite
def cases(draw):
    spec = draw(gen_tables.cid_specs(kinds=("excel",), max_header=2))
    spec["fmt"]["sheet"] = None
    if draw(st.integers(0, 2)) == 0:
        # the data format says which characters a value may hold - in all three storage formats alike
        spec["fmt"]["allowed"], spec["fmt"]["allowed_text"] = draw(st.sampled_from([
            ([[32, 126]], "32...126"), ([[32, None]], "32..."), ([[10, 10], [32, 255]], "10, 32...255")]))
    rows = draw(gen_tables.tables(spec, max_rows=6, ragged=False))
    header = spec["fmt"].get("header", 0)
    if len(rows) > header and draw(st.booleans()):
        # texts on which the reference model has no opinion (number-like, date-like, padded): whatever a field makes
        # of them, it has to be the same in all three formats.  DateTime columns are left alone (documented suffix).
        columns = [i for i, f in enumerate(spec["fields"]) if i < len(spec["fields"]) - 1 or len(spec["fields"]) == 1]
        for _ in range(draw(st.integers(1, 3)) if columns else 0):
            y = draw(st.integers(header, len(rows) - 1))
            x = draw(st.sampled_from(columns))
            if x < len(rows[y]):
                kind = spec["fields"][x]["type"]
                if kind == "DateTime":
                    # date / time-stamp spellings a spreadsheet produces; the one suffix that is documented to depend
                    # on the format is recognised cell by cell in check_case and keeps the case out of the comparison
                    accepted = [c for c in spec["fields"][x].get("accept", []) if c.strip()]
                    if accepted and draw(st.booleans()):
                        # a value the field accepts, dressed the way a spreadsheet shows a date-time cell: with a date
                        # in front, a time or a fraction behind
                        base = draw(st.sampled_from(accepted))
                        rows[y][x] = draw(st.sampled_from(["2024-05-06 " + base, "1899-12-30 " + base, "1900-01-01 " + base,
                                                           base + " 00:00:00", base + " 12:34:56", base + ".789000"]))
                    else:
                        rows[y][x] = draw(st.sampled_from(WILD_MOMENTS))
                else:
                    numeric = kind in ("Integer", "Decimal")
                    rows[y][x] = draw(st.sampled_from(WILD_NUMBERS if numeric and draw(st.booleans()) else WILD_TEXTS))
    text_columns = [i for i, f in enumerate(spec["fields"]) if f["type"] == "Text"]
    if text_columns and draw(st.integers(0, 7)) == 0:
        # a length no cell of this table reaches (and beyond what some applications put into a cell): every row is
        # rejected - in all three formats alike - and the CID loads in all three
        field = spec["fields"][draw(st.sampled_from(text_columns))]
        field["length"], field["length_items"] = draw(st.sampled_from([
            ("40000...", [[40000, None]]), ("32768...50000", [[32768, 50000]]), ("65536", [[65536, 65536]]),
            ("32767...", [[32767, None]])]))
    if spec["fmt"].get("allowed") and len(rows) > header and text_columns and draw(st.booleans()):
        # a value of several lines in a row that is fine otherwise
        y = draw(st.integers(header, len(rows) - 1))
        x = draw(st.sampled_from(text_columns))
        if x < len(rows[y]):
            rows[y][x] = draw(st.sampled_from(["two\nlines", "a\n\nb", "x\ny z"]))
    # a comment row of the CID with many characters that are item delimiters in some CSV dialect
    comment = draw(st.sampled_from(["", "", ";" * 400, "\t" * 400, "a;b\tc|d;" * 80, "x,y" * 5, ":" * 300]))
    return {"spec": spec, "rows": rows, "comment": comment}


def _variant(spec, data_format):
    result = copy.deepcopy(spec)
    result["fmt"]["format"] = data_format
    result["fmt"]["kind"] = data_format
    return result


def _write_cid(rows, storage, path):
    if storage == "csv":
        import csv

        with open(path, "w", encoding="utf-8", newline="") as f:
            csv.writer(f).writerows(rows)
    elif storage == "ods":
        enc_ods.write(path, [rows], {})
    else:
        enc_xlsx.write_text_table(path, rows)


def _signature_of(cid):
    data_format = cid.data_format
    settings = {"format": data_format.format, "header": data_format.header, "encoding": data_format.encoding,
                "allowed": None if data_format.allowed_characters is None else str(data_format.allowed_characters)}
    if data_format.format == "delimited":
        settings.update(item_delimiter=data_format.item_delimiter, quote=data_format.quote_character,
                        escape=data_format.escape_character, line=data_format.line_delimiter,
                        decimal=data_format.decimal_separator, thousands=data_format.thousands_separator)
    else:
        settings.update(sheet=data_format.sheet)
    fields = [(f.field_name, type(f).__name__, f.is_allowed_to_be_empty, str(f.length), f.rule)
              for f in cid.field_formats]
    checks = [(name, type(cid.check_map[name]).__name__, cid.check_map[name].rule) for name in cid.check_names]
    return {"settings": settings, "field_names": list(cid.field_names), "fields": fields, "checks": checks}


def _describe(item):
    if isinstance(item, Exception):
        location = item.location
        return ("error", type(item).__name__, None if location is None else location.line,
                None if location is None else location.cell)
    return ("row", list(item))


def check_case(sub, case):
    spec, rows = case["spec"], case["rows"]
    tmpdir = reused_dir("c17")
    try:
        results = {}
        models = {}
        for data_format in DATA_FORMATS:
            variant = _variant(spec, data_format)
            models[data_format] = model_validio.predict(variant, rows)
            cid_rows = cidlib.cid_rows(variant["fmt"], variant["fields"], gen_tables.check_rows(variant))
            if case.get("comment"):
                cid_rows = cid_rows[:1] + [["", case["comment"]]] + cid_rows[1:] + [["", "", case["comment"]]]
            data_path, _ = gen_tables.write_source(variant, rows, tmpdir, "path", name="data-" + data_format)
            signatures = {}
            for storage in STORAGES:
                cid_path = os.path.join(tmpdir, "cid-%s.%s" % (data_format, storage))
                _write_cid(cid_rows, storage, cid_path)
                try:
                    cid = cutplace.Cid(cid_path)
                except Exception as error:
                    sub.fail("C17|cid-load|%s|%s|%s|%s" % (storage, data_format, type(error).__name__,
                                                           norm_message(error)), case,
                             "CID stored as %s (format %s) rejected: %s: %s" % (
                                 storage, data_format, type(error).__name__, error))
                    return
                signatures[storage] = _signature_of(cid)
                items, ended = c04.read_all(cid, data_path, "yield")
                if ended is not None and not isinstance(ended, errors.CheckError):
                    sub.fail("C17|read-exception|%s|%s|%s" % (storage, data_format, type(ended).__name__), case,
                             "reading %s data under the %s CID raised %s: %s" % (
                                 data_format, storage, type(ended).__name__, ended))
                    return
                results[(storage, data_format)] = ([_describe(i) for i in items],
                                                   None if ended is None else type(ended).__name__)
                sub.evaluations += 1
            for storage in STORAGES[1:]:
                if signatures[storage] != signatures["csv"]:
                    differing = [k for k in signatures["csv"] if signatures["csv"][k] != signatures[storage][k]]
                    sub.fail("C17|cid-differs|%s-vs-csv|%s" % (storage, ",".join(differing)), case,
                             "CID loaded from %s: %r; from csv: %r" % (storage, signatures[storage], signatures["csv"]))
        # neutral when the reference itself is format dependent or tainted
        reference = models["delimited"]
        tainted = any(models[f]["tainted"] for f in DATA_FORMATS)
        comparable = all(
            [o if o is None else o[:4] for o in models[f]["outcomes"]] ==
            [o if o is None else o[:4] for o in reference["outcomes"]] and models[f]["end"] == reference["end"]
            for f in DATA_FORMATS)
        if comparable and tainted:
            # a cell without reference verdict hides the rest of its row from the model: look at the cells themselves
            variants = [_variant(spec, f) for f in DATA_FORMATS]
            for row in rows[spec["fmt"].get("header", 0):]:
                for field_index, cell in enumerate(row[:len(spec["fields"])]):
                    verdicts = set(model_fields.verdict(v["fields"][field_index], v["fmt"], cell)[0] for v in variants)
                    if len(verdicts) > 1:
                        comparable = False
        if not comparable:
            sub.case(None, False, ["format-specific"])
            return
        base = results[("csv", "delimited")]
        for key, value in sorted(results.items()):
            if value != base:
                sub.fail("C17|verdict-differs|cid-%s|data-%s" % key, case,
                         "CID from %s, data as %s: %r; CID from csv, data delimited: %r" % (key[0], key[1], value, base))
        if tainted:
            # texts the model leaves open: the nine runs agree (checked above), there is nothing to compare them with
            sub.case((str(cidlib.cid_rows(spec["fmt"], spec["fields"], gen_tables.check_rows(spec))), rows), True,
                     ["wild-texts", "header:%d" % spec["fmt"].get("header", 0)],
                     sample={"fields": [[f["name"], f["type"], f["rule"]] for f in spec["fields"]], "rows": rows[:5],
                             "verdicts": [i[0] if i[0] == "row" else i[1] for i in base[0]][:6]}, evals=0)
            return
        # and against the model
        wanted = [o for o in reference["outcomes"] if o is not None]
        items, ended = base
        if len(items) != len(wanted):
            sub.fail("C17|model|item-count", case, "%d data rows, %d items" % (len(wanted), len(items)))
        else:
            for outcome, item in zip(wanted, items):
                if outcome[0] in ("row", "unvalidated"):
                    ok = item == ("row", list(outcome[1]))
                else:
                    ok = item[0] == "error" and item[1] == outcome[1] and item[2] == outcome[2] and (
                        outcome[3] is None or item[3] == outcome[3])
                if not ok:
                    sub.fail("C17|model|%s" % (outcome[0] if outcome[0] != "error" else outcome[1]), case,
                             "model expects %r, all nine runs delivered %r" % (outcome, item))
                    break
            if (reference["end"] == "ok") != (ended is None):
                sub.fail("C17|model|end", case, "model end %r, runs ended with %r" % (reference["end"], ended))
        types = sorted(set(f["type"] for f in spec["fields"]))
        rejected = any(o is not None and o[0] == "error" for o in reference["outcomes"])
        sub.case((str(cidlib.cid_rows(spec["fmt"], spec["fields"], gen_tables.check_rows(spec))), rows),
                 rejected or "Decimal" in types or "DateTime" in types,
                 ["type:" + t for t in types] + ["rejected-rows" if rejected else "all-accepted",
                                                "header:%d" % spec["fmt"].get("header", 0)],
                 sample={"fields": [[f["name"], f["type"], f["rule"]] for f in spec["fields"]], "rows": rows[:5],
                         "verdicts": [i[0] if i[0] == "row" else i[1] for i in items][:6]}, evals=0)
    finally:
        shutil.rmtree(tmpdir, ignore_errors=True)


def run(ctx):
    ctx.hyp("storage", cases, check_case, ctx.n(3000, 20000))


def replay(sub, case):
    check_case(sub, case)
