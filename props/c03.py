"""C03 - empty, length and allowed-character guards hold for every field type."""
import io
import os
import shutil
import tempfile

from hypothesis import strategies as st

from vlib import gen_range, cidlib, gen_fields, model_fields
from vlib.runner import norm_message, reused_dir

import cutplace
from cutplace import errors

PROPERTY_ID = "C03"
RULE = (
    "Enumeration (complete in both tiers): 8 built-in types, each with one guard-friendly rule and a base cell it "
    "accepts x {empty allowed, not allowed} x length declarations relative to the base cell's length L {none, exact "
    "L, exact L-1, exact L+1, 'L...', 'L+1...', '...L', '...L-1', two items excluding L, two items including L} "
    "(fixed: widths L, L+2, L-1) x allowed characters {none, everything but '#', everything but a character of the "
    "base cell, printable ASCII only} x formats {delimited, fixed, excel, ods} x cells {'', blanks only, base cell, base cell one shorter "
    "/ one longer where the type permits, base cell with '#' substituted at every position, base cell with tab / no-break space / em space / (not fixed) line feed at either edge}; observed through "
    "FieldFormat.validated and through cutplace.rows(on_error='yield') on streams (delimited, fixed) and generated "
    "files (ods, xlsx). Hypothesis adds random lengths, character ranges and cells. Oracle: guards of "
    "vlib/model_fields.verdict. Non-trivial: a case in which a guard and the type rule disagree (the rule alone "
    "would accept but a guard rejects, or the rule would reject '' but the flag accepts); enumerated cases are "
    "distinct by construction."
    "Cells ending in a line feed (not fixed) and texts ending in '.0' are part of the matrix."
    "Fixed cells too wide by blanks only; allowed characters declared twice around a field with an example."
)
ASSUMPTIONS = [
    "blank (U+0020) is always an allowed character in fixed format (padding)",
    "Constant is only combined with the flag / length pairs the CID loader permits",
    "xlsx/ods cannot represent trailing empty rows, so a non-empty sentinel row ends every generated sheet",
]
EXHAUSTIVE = True
EXHAUSTIVE_SCOPE = "the guard matrix described in the rule (types x flags x lengths x allowed characters x formats x cells)"

TYPES = {
    # type: (rule, model, base cell, shorter cell, longer cell)
    "Integer": ("", None, "123", "12", "1234"),
    "Decimal": ("", {"range_items": [["-9999999999999999999.999999999999", "9999999999999999999.999999999999"]]},
                "1.5", "15", "12.5"),
    "Choice": ("a, bb, ccc, dddd", {"choices": ["a", "bb", "ccc", "dddd"]}, "ccc", "bb", "dddd"),
    "Constant": ("abc", {"constant": "abc"}, "abc", None, None),
    "DateTime": ("DD.MM.YYYY", {"layout": ["DD", ".", "MM", ".", "YYYY"]}, "01.02.2020", None, None),
    "Pattern": ("*", {"tokens": [{"t": "star"}]}, "abc", "ab", "abcd"),
    "RegEx": ("[a-d]+", {"ast": {"t": "seq", "items": [{"t": "rep", "node": {"t": "class", "neg": False,
                                                                           "items": [["a", "d"]]},
                                              "min": 1, "max": None}]}}, "abc", "ab", "abcd"),
    "Text": ("", {}, "abc", "ab", "abcd"),
}


def _length_decls(length, fixed):
    if fixed:
        return [(str(n), [[n, n]]) for n in (length, length + 2, max(length - 1, 1))]
    out = [("", None), (str(length), [[length, length]]), (str(length - 1), [[length - 1, length - 1]]),
           (str(length + 1), [[length + 1, length + 1]]), ("%d..." % length, [[length, None]]),
           ("%d..." % (length + 1), [[length + 1, None]]), ("...%d" % length, [[None, length]]),
           ("...%d" % (length - 1), [[None, length - 1]]),
           ("1...%d, %d...%d" % (length - 1, length + 1, length + 2), [[1, length - 1], [length + 1, length + 2]]),
           ("%d, %d...%d" % (length, length + 2, length + 3), [[length, length], [length + 2, length + 3]])]
    return out


def _allowed_settings(base, fixed):
    settings = [(None, None)]
    for ch in ("#", base[1]):
        code = ord(ch)
        settings.append(("...%d, %d..." % (code - 1, code + 1), [[None, code - 1], [code + 1, None]]))
    # printable ASCII only: tab, no-break space and em space are white space for str.strip() but not allowed
    settings.append(("32...126", [[32, 126]]))
    return settings


def _configs():
    for type_name, (rule, model, base, shorter, longer) in TYPES.items():
        for kind in ("delimited", "fixed", "excel", "ods"):
            fixed = kind == "fixed"
            for empty in (False, True):
                if type_name == "Constant" and empty:
                    continue
                for length_text, length_items in _length_decls(len(base), fixed):
                    if type_name == "Constant" and length_items is not None and not fixed:
                        if not model_fields.member(length_items, len(base)):
                            continue
                    if type_name == "Constant" and fixed and length_items[0][0] != len(base):
                        continue
                    for allowed_text, allowed in _allowed_settings(base, fixed):
                        fmt = gen_fields.format_spec(kind, allowed=allowed, allowed_text=allowed_text)
                        fmt["thousands"] = ""  # keep separators out of the way of the guard matrix
                        if empty:
                            fmt["layout"] = "late-properties"  # the property rows behind the field row
                        field_model = model
                        field_rule = rule
                        if type_name == "Integer":
                            if fixed:
                                items = model_fields.length_range_items([[1, length_items[0][0]]])
                            elif length_items is None:
                                items = [[-(2 ** 31), 2 ** 31 - 1]]
                            else:
                                items = model_fields.length_range_items(length_items)
                            field_model = {"range_items": items}
                        field = {"name": "guarded", "empty": empty, "length": length_text,
                                 "length_items": length_items, "type": type_name, "rule": field_rule,
                                 "model": field_model}
                        cells = ["", " ", "   ", base]
                        if shorter is not None:
                            cells += [shorter, longer]
                        for i in range(len(base)):
                            cells.append(base[:i] + "#" + base[i + 1:])
                        if type_name == "DateTime":
                            # an Excel date cell as text: 19 characters whatever the rule makes of the suffix
                            cells.append(base + " 00:00:00")
                        if len(base) > 2:
                            # text that ends the way numbers do in spreadsheets: the guards see all of it
                            cells.append(base[:-2] + ".0")
                        # a line feed too where a cell can hold one (it is no end of the text for the guards)
                        for edge in "\t\xa0\u2003" + ("" if fixed else "\n"):
                            cells.append(base[:-1] + edge)
                            cells.append(edge + base[1:])
                        if fixed:
                            width = length_items[0][0]
                            cells += [c + " " * (width - len(c)) for c in list(cells) if len(c) < width]
                            cells.append(" " * width)
                            # wider than the field only because of blanks around a fine value: too wide all the same
                            padded = base + " " * (width - len(base))
                            cells += [padded + " ", " " + padded, padded + "   "]
                        yield {"fmt": fmt, "field": field, "cells": cells}


def _rule_alone(field, fmt, cell):
    plain = dict(fmt, allowed=None)
    unguarded = dict(field, length_items=None)
    stripped = cell.strip() if fmt["format"] == "fixed" else cell
    if stripped == "":
        return ("reject", "empty")
    return model_fields.rule_verdict(unguarded, plain, stripped)


def check_config(sub, case, tmpdir=None, readers=True):
    fmt, field, cells = case["fmt"], case["field"], case["cells"]
    type_name = field["type"]
    decl = {k: field[k] for k in ("empty", "length", "type", "rule")}
    where = "%s|%s" % (type_name, fmt["format"])
    try:
        cid = cidlib.load_cid(cidlib.cid_rows(fmt, [field]))
        field_format = cid.field_formats[0]
    except Exception as error:
        sub.fail("C03|construct|%s|%s|%s" % (where, type(error).__name__, norm_message(error)), case,
                 "declaration %r (allowed %r) rejected: %s: %s" % (decl, fmt.get("allowed_text"),
                                                                  type(error).__name__, error))
        return 0, 0
    evals = nontrivial = 0
    expectations = []
    for cell in cells:
        expected = model_fields.verdict(field, fmt, cell)
        expectations.append(expected)
        evals += 1
        if expected[0] == "neutral":
            sub.cls("neutral")
            continue
        alone = _rule_alone(field, fmt, cell)
        if (expected[0] == "reject" and alone[0] == "accept") or (expected[0] == "accept" and alone[0] == "reject"):
            nontrivial += 1
            sub.cls("disagree:%s:%s" % (type_name, expected[1] if expected[0] == "reject" else "empty-accepted"))
        sub.cls("%s:%s" % (where, expected[0] if expected[0] == "accept" else "reject-" + expected[1]))
        one = dict(case, cells=[cell])
        try:
            actual = field_format.validated(cell)
            outcome = "accept"
        except errors.FieldValueError as error:
            outcome = "reject"
            actual = error
        except Exception as error:
            sub.fail("C03|exception|%s|%s" % (where, type(error).__name__), one,
                     "validated(%r) of %r raised %s: %s" % (cell, decl, type(error).__name__, error))
            continue
        if expected[0] == "accept" and outcome == "reject":
            sub.fail("C03|rejected-but-must-accept|%s" % where, one,
                     "cell %r must be accepted by %r (allowed %r): %s" % (cell, decl, fmt.get("allowed_text"), actual))
        elif expected[0] == "reject" and outcome == "accept":
            sub.fail("C03|accepted-but-must-reject|%s|%s" % (expected[1], where), one,
                     "cell %r must be rejected (%s) by %r (allowed %r) but validated() returned %r" % (
                         cell, expected[1], decl, fmt.get("allowed_text"), actual))
        elif expected[0] == "accept" and not model_fields.native_equal(expected[1], actual):
            sub.fail("C03|value|%s" % where, one, "cell %r under %r returned %r, expected %r" % (
                cell, decl, actual, expected[1]))
    if readers:
        evals += _check_reader(sub, case, cid, cells, expectations, tmpdir)
    return evals, nontrivial


def _check_reader(sub, case, cid, cells, expectations, tmpdir):
    fmt, field = case["fmt"], case["field"]
    kind = fmt["format"]
    where = "%s|%s" % (field["type"], kind)
    rows = []
    if kind == "fixed":
        width = field["length_items"][0][0]
        for cell in cells:
            if len(cell) <= width:
                padded = cell + " " * (width - len(cell))
                rows.append((padded, model_fields.verdict(field, fmt, padded)))
        source = io.StringIO("".join(c + "\n" for c, _ in rows), newline="")
    elif kind == "delimited":
        for cell, expected in zip(cells, expectations):
            rows.append((cell, expected))
        source = io.StringIO("".join('"' + c.replace('"', '""') + '"\n' for c, _ in rows), newline="")
    else:
        if tmpdir is None:
            return 0
        for cell, expected in zip(cells, expectations):
            rows.append((cell, expected))
        sentinel = case["field"]["model"].get("sentinel") or cells[3]
        rows.append((sentinel, model_fields.verdict(field, fmt, sentinel)))
        if kind == "ods":
            from vlib import enc_ods

            source = os.path.join(tmpdir, "t.ods")
            enc_ods.write(source, [[[c] for c, _ in rows]], {})
        else:
            from vlib import enc_xlsx

            source = os.path.join(tmpdir, "t.xlsx")
            enc_xlsx.write_text_table(source, [[c] for c, _ in rows])
    try:
        results = list(cutplace.rows(cid, source, on_error="yield"))
    except Exception as error:
        sub.fail("C03|reader-exception|%s|%s" % (where, type(error).__name__), case,
                 "cutplace.rows raised %s: %s" % (type(error).__name__, error))
        return 0
    if len(results) != len(rows):
        sub.fail("C03|reader-row-count|%s" % where, case, "%d rows written, %d results" % (len(rows), len(results)))
        return 0
    for (cell, expected), result in zip(rows, results):
        if expected[0] == "neutral":
            continue
        rejected = isinstance(result, Exception)
        one = dict(case, cells=[cell])
        if expected[0] == "accept" and rejected:
            sub.fail("C03|reader-rejected-but-must-accept|%s" % where, one, "reader rejected %r: %s" % (cell, result))
        elif expected[0] == "reject" and not rejected:
            sub.fail("C03|reader-accepted-but-must-reject|%s|%s" % (expected[1], where), one,
                     "reader accepted %r although it must be rejected (%s)" % (cell, expected[1]))
        elif rejected:
            if not isinstance(result, errors.FieldValueError):
                sub.fail("C03|reader-error-class|%s|%s" % (where, type(result).__name__), one,
                         "rejection of %r is %r" % (cell, result))
            elif "'%s'" % field["name"] not in str(result):
                sub.fail("C03|reader-error-does-not-name-field|%s" % where, one,
                         "error for %r does not name field %r: %s" % (cell, field["name"], result))
    return len(rows)


def _shard(args):
    from vlib.runner import Sub

    index, count = args
    sub = Sub("matrix")
    tmpdir = reused_dir("c03")
    evals = nontrivial = 0
    try:
        for number, case in enumerate(_configs()):
            if number % count != index:
                continue
            e, n = check_config(sub, case, tmpdir)
            evals += e
            nontrivial += n
            if number % 97 == 0 and len(sub.samples) < 4:
                sub.samples.append({"format": case["fmt"]["kind"], "allowed": case["fmt"]["allowed_text"],
                                    "field": {k: case["field"][k] for k in ("empty", "length", "type", "rule")},
                                    "cells": case["cells"][:8]})
    finally:
        shutil.rmtree(tmpdir, ignore_errors=True)
    sub.bulk(evals, nontrivial)
    return sub


# -- hypothesis: random lengths, ranges and cells -------------------------------------------------
@st.composite
def random_cases(draw):
    kind = draw(st.sampled_from(["delimited", "delimited-de", "fixed", "excel", "ods"]))
    lo = draw(st.integers(33, 120))
    hi = draw(st.integers(lo, 126))
    shape = draw(st.sampled_from(["none", "closed", "two", "open", "many", "many"]))
    if shape == "many":
        # 5-14 items in any order, limits spelled as numbers, hex or quoted characters; the blank stays allowed
        drawn = draw(gen_range.int_range_cases(14, st.integers(33, 260), ("dec", "dec", "hex", "quoted")))
        allowed_text, allowed = drawn["description"], [list(item) for item in drawn["items"]]
        if not gen_range.member(allowed, 32):
            # in front or behind (the description may hold a quoted comma: it is not taken apart)
            blank = draw(st.sampled_from(["32", '" "', "0x20"]))
            if draw(st.booleans()):
                allowed_text, allowed = blank + ", " + allowed_text, [[32, 32]] + allowed
            else:
                allowed_text, allowed = allowed_text + ", " + blank, allowed + [[32, 32]]
    elif shape == "none":
        allowed_text, allowed = None, None
    elif shape == "closed":
        allowed_text, allowed = "32, %d...%d" % (lo, hi), [[32, 32], [lo, hi]]
    elif shape == "two":
        allowed_text, allowed = "32...%d, %d..." % (lo, hi + 1), [[32, lo], [hi + 1, None]]
    else:
        allowed_text, allowed = "32...%d" % hi, [[32, hi]]
    fmt = gen_fields.format_spec(kind, allowed=allowed, allowed_text=allowed_text)
    # only Format has to be the first row: the other properties may stand behind the field they apply to
    fmt["layout"] = draw(st.sampled_from([None, None, "late-properties"]))
    type_name = draw(st.sampled_from(["Text", "Pattern", "RegEx", "Choice", "Integer", "Decimal", "Decimal", "DateTime"]))
    field = draw(gen_fields.FIELD_STRATEGIES[type_name]("guarded", fmt))
    if type_name in ("Pattern", "RegEx", "Choice", "Decimal", "DateTime") and kind != "fixed":
        if draw(st.integers(0, 3)) == 0:
            # many length items, not in ascending order
            numbers = draw(st.lists(st.integers(1, 24), min_size=5, max_size=12, unique=True))
            field["length"], field["length_items"] = ", ".join(str(n) for n in numbers), [[n, n] for n in numbers]
        else:
            field["length"], field["length_items"] = draw(gen_fields.length_decls(hi_max=12))
    cells = gen_fields.cells_for(draw, field, fmt, 4)
    cells += draw(st.lists(st.text("abc123 #~Zz", max_size=8), min_size=2, max_size=4))
    if type_name == "Decimal" and fmt["thousands"]:
        # nothing but separators, and grouped numbers of several lengths
        ts = fmt["thousands"]
        cells += [ts, ts + ts, "1" + ts + "234", "1" + ts + "234" + ts + "567", "12" + ts + "345" + ts + "678"]
    if allowed:
        # characters next to the limits of every item
        edges = sorted(set(code + delta for item in allowed for code in item if code is not None for delta in (-1, 0, 1)))
        base = next((c for c in cells if c.strip()), "a")
        for code in draw(st.lists(st.sampled_from(edges), max_size=6)):
            if code > 32 and chr(code).isprintable():
                cells.append(base[:-1] + chr(code))
    if fmt.get("layout") == "late-properties" and allowed and draw(st.booleans()):
        # the field row carries an example that is fine when the row is read (the allowed characters are declared
        # further down) but holds a character the data format does not allow in the data
        plain = dict(fmt, allowed=None)
        examples = [cell for cell in cells if cell.strip()
                    and model_fields.verdict(field, plain, cell)[0] == "accept"
                    and model_fields.verdict(field, fmt, cell)[0] == "reject"]
        if examples:
            field["example"] = draw(st.sampled_from(examples))
            if draw(st.booleans()):
                # ... and a first, generous declaration of the allowed characters in front of the field (one that
                # allows every character of the example, which is checked when the field row is read)
                lowest = min(ord(ch) for ch in field["example"])
                fmt["allowed_at_first"] = draw(st.sampled_from(
                    ["0..."] + (["32...", "32...255, 256..."] if lowest >= 32 else [])))
    return {"fmt": fmt, "field": field, "cells": cells}


def check_random(sub, case):
    e, n = check_config(sub, case, None, readers=case["fmt"]["format"] in ("delimited", "fixed"))
    sub.case((case["fmt"]["kind"], case["fmt"]["allowed_text"], case["field"]["length"], case["field"]["rule"],
              case["cells"]), n > 0, ["hyp:" + case["field"]["type"], "hyp:" + case["fmt"]["kind"]], evals=e)


def run(ctx):
    shards = ctx.workers * 2
    ctx.par(_shard, [(i, shards) for i in range(shards)])
    ctx.hyp("random-guards", random_cases, check_random, ctx.n(1500, 30000))


def replay(sub, case):
    tmpdir = reused_dir("c03")
    try:
        e, n = check_config(sub, case, tmpdir)
        sub.evaluations += e
    finally:
        shutil.rmtree(tmpdir, ignore_errors=True)
