"""C13 - fixed-width reading is lossless and aligned."""
import io
import itertools
import os
import shutil
import tempfile

from hypothesis import strategies as st

from vlib.runner import reused_dir

from cutplace import errors, rowio

PROPERTY_ID = "C13"
RULE = (
    "Exhaustive: every string over {a,b,CR,LF} up to length 7 (quick) / 9 (thorough) x all 39 width lists with 1-3 "
    "fields of width 1-3 x the 5 line-delimiter settings, read through fixed_rows from a StringIO (newline '' or the "
    "default), from a StringIO whose first line the caller has already consumed, or from an object that offers nothing "
    "but read(size); every third width list gives all its fields the same name. "
    "Hypothesis: longer well-formed files (records over a wider alphabet incl. blanks and non-ASCII, joined by "
    "permitted delimiters, final one optional) unchanged and with one character deleted / inserted / replaced at "
    "every offset, read from a stream, by path, from a file opened from a descriptor, from a pipe and from a bare "
    "read() object, with the declared encoding (8 encodings); long well-formed files whose CR LF / "
    "CR / LF delimiters start at, before or after multiples of typical I/O block sizes; exhaustively every string up "
    "to length 4 (quick) / 6 (thorough) over {a, X, LF} containing X, for each of 17 characters X that some layer might "
    "treat specially (NUL, VT, FF, Ctrl-Z, FS GS RS US, DEL, NEL, NBSP, U+2028, U+2029, the byte order mark U+FEFF, "
    "U+3000, U+D7FF, an astral character), from a stream and from a UTF-8 file. Oracle: DataFormatError, or rows with "
    "exact widths whose concatenation interleaved with permitted delimiters (final optional) equals the input; "
    "inputs of the well-formed language must be accepted with exactly their records. Non-trivial: the input "
    "contains CR/LF or yields >= 2 rows; enumerated cases are distinct by construction, generated ones by hash."
    "A second reading of the same characters advances in turn with the judged one. Declared encodings include EBCDIC code pages; sources include a spooled temporary file."
    "Files without the byte order mark UTF-16 / UTF-32 insist on must fail with a data-format error; every data-format error must be printable; a fixed CID put together in steps reports the widths it has when asked."
)
ASSUMPTIONS = [
    "streams are opened with newline='' (no newline translation by the caller)",
    "a zero-row result is only valid for the empty input",
]
EXHAUSTIVE = True
EXHAUSTIVE_SCOPE = "strings over {a,b,CR,LF} up to length 7 (quick) / 9 (thorough) x 39 width lists x 5 settings"

SETTINGS = {"any": "any", "lf": "\n", "cr": "\r", "crlf": "\r\n", "none": None}
DELIMS = {"any": ("\r\n", "\r", "\n"), "lf": ("\n",), "cr": ("\r",), "crlf": ("\r\n",), "none": ("",)}
WIDTH_LISTS = [w for n in (1, 2, 3) for w in itertools.product((1, 2, 3), repeat=n)]


def wellformed_records(text, total, setting):
    """Records if text is in the well-formed language, else None."""
    records = []
    pos = 0
    n = len(text)
    if n == 0:
        return records
    delims = DELIMS[setting]
    while True:
        record = text[pos:pos + total]
        if len(record) != total:
            return None
        if setting != "none" and ("\r" in record or "\n" in record):
            return None
        records.append(record)
        pos += total
        if pos == n:
            return records
        if setting == "none":
            continue
        for d in delims:
            if text.startswith(d, pos):
                pos += len(d)
                break
        else:
            return None
        if pos == n:
            return records


def reproduces(text, joined_rows, setting):
    """True if joined_rows interleaved with permitted delimiters (final optional) equals text."""
    delims = DELIMS[setting]
    if not joined_rows:
        return text == ""

    def rec(index, pos):
        row = joined_rows[index]
        if not text.startswith(row, pos):
            return False
        pos += len(row)
        if index == len(joined_rows) - 1:
            rest = text[pos:]
            return rest == "" or (setting != "none" and rest in delims)
        for d in delims:
            if text.startswith(d, pos) and rec(index + 1, pos + len(d)):
                return True
        return False

    return rec(0, 0)


def split_row(record, widths):
    out = []
    pos = 0
    for w in widths:
        out.append(record[pos:pos + w])
        pos += w
    return out


class _OnlyRead(object):
    """The least a file-like object can be: it hands out the text through read(size) and offers nothing else (no name,
    no readline, no tell / seek, no iteration)."""

    def __init__(self, text):
        self._text = text
        self._position = 0

    def read(self, size=-1):
        if size is None or size < 0:
            size = len(self._text) - self._position
        result = self._text[self._position:self._position + size]
        self._position += len(result)
        return result


# where the characters come from: a StringIO without / with the default newline setting, a file named by its path,
# a file opened from a descriptor (its name is a number), a pipe (it cannot seek or tell), a bare read() object
# a spooled temporary file (its name is None while it lives in memory)
# 'path-no-bom': a file whose bytes are not what the declared encoding promises (UTF-16 / UTF-32 without the byte order
# mark those codecs insist on): there is no character stream then - reading fails with a data-format error
SOURCES = ("stream", "path", "stream-default", "fd", "pipe", "reader-object", "stream-advanced", "spooled",
           "path-no-bom")


_CHEAP_SOURCES = ("stream", "stream-default", "reader-object", "stream-advanced", "spooled")


def judge(sub, text, widths, setting, via="stream", encoding="utf-8", tmpdir=None):
    """Run fixed_rows and compare with the oracle. Returns number of rows or None on error."""
    # names say nothing about the layout: every third width list uses one name for all its fields
    fields = [("f%d" % i if (len(text) + len(widths)) % 3 else "filler", w) for i, w in enumerate(widths)]
    total = sum(widths)
    case = {"text": text, "widths": list(widths), "setting": setting, "via": via, "encoding": encoding}
    opened = None
    try:
        if via == "stream":
            source = io.StringIO(text, newline="")
        elif via == "stream-default":
            source = io.StringIO(text)  # newline="\n": reading translates nothing either
        elif via == "reader-object":
            source = _OnlyRead(text)
        elif via == "stream-advanced":
            # the caller has already consumed a title line: what is left of the stream is the input
            source = io.StringIO("title line\n" + text, newline="")
            source.readline()
        elif via == "spooled":
            source = opened = tempfile.SpooledTemporaryFile(max_size=1 << 24, mode="w+", encoding="utf-8", newline="")
            source.write(text)
            source.seek(0)
        elif via == "pipe":
            read_end, write_end = os.pipe()
            os.write(write_end, text.encode(encoding))
            os.close(write_end)
            source = opened = os.fdopen(read_end, "r", encoding=encoding, newline="")
        elif via == "path-no-bom":
            source = os.path.join(tmpdir, "data.txt")
            encoding = "utf-32" if len(text) % 2 else "utf-16"
            with open(source, "wb") as f:
                f.write(("xx" + text).encode(encoding + "-le"))
        else:
            source = os.path.join(tmpdir, "data.txt")
            with open(source, "wb") as f:
                f.write(text.encode(encoding))
            if via == "fd":
                source = opened = os.fdopen(os.open(source, os.O_RDONLY), "r", encoding=encoding, newline="")
        try:
            # another reading of the same characters goes on at the same time, row by row in turn: the two are none
            # of each other's business
            company = rowio.fixed_rows(io.StringIO(text, newline=""), encoding, fields, SETTINGS[setting])
            rows = []
            for row in rowio.fixed_rows(source, encoding, fields, SETTINGS[setting]):
                rows.append(row)
                if company is not None:
                    try:
                        next(company)
                    except (StopIteration, errors.DataFormatError):
                        company = None
        finally:
            if opened is not None:
                opened.close()
        failed = None
    except errors.DataFormatError as error:
        rows = None
        failed = error
        try:
            str(error)  # an error that cannot be put into words is of no use to anybody
        except Exception as text_error:
            sub.fail("C13|error-text-raises|%s|%s" % (type(text_error).__name__, via), case,
                     "str() of the DataFormatError raised %s: %s" % (type(text_error).__name__, text_error))
            return None
    except Exception as error:
        sub.fail("C13|exc|%s|%s" % (type(error).__name__, via), case,
                 "fixed_rows raised %s: %s" % (type(error).__name__, error))
        return None
    if via == "path-no-bom":
        if rows is not None:
            sub.fail("C13|undecodable-accepted|%s" % encoding, case, "bytes without byte order mark read as %r" % (rows,))
        return None
    expected = wellformed_records(text, total, setting)
    if rows is None:
        if expected is not None:
            sub.fail("C13|wellformed-rejected|%s|%s" % (setting, via), case,
                     "well-formed input %r (widths %r, %s) rejected: %s" % (text, widths, setting, failed))
        return None
    for row in rows:
        if len(row) != len(widths) or any(len(item) != w for item, w in zip(row, widths)):
            sub.fail("C13|width|%s|%s" % (setting, via), case, "row %r does not have widths %r" % (row, widths))
            return len(rows)
    if expected is not None:
        if rows != [split_row(r, widths) for r in expected]:
            sub.fail("C13|wellformed-wrong-rows|%s|%s" % (setting, via), case,
                     "well-formed input %r read as %r" % (text, rows))
    elif not reproduces(text, ["".join(r) for r in rows], setting):
        sub.fail("C13|not-lossless|%s|%s" % (setting, via), case,
                 "input %r (widths %r, %s) accepted as %r which does not reproduce it" % (text, widths, setting, rows))
    return len(rows)


# -- exhaustive -----------------------------------------------------------------
def _exhaustive_shard(args):
    from vlib.runner import Sub

    index, count, max_len = args
    sub = Sub("exhaustive")
    alphabet = "ab\r\n"
    number = 0
    evals = 0
    nontrivial = 0
    classes = {}
    for length in range(0, max_len + 1):
        for chars in itertools.product(alphabet, repeat=length):
            number += 1
            if number % count != index:
                continue
            text = "".join(chars)
            has_break = "\r" in text or "\n" in text
            for widths in WIDTH_LISTS:
                for setting in SETTINGS:
                    before = len(sub.fails)
                    n_rows = judge(sub, text, widths, setting, _CHEAP_SOURCES[(number + len(widths)) % len(_CHEAP_SOURCES)])
                    evals += 1
                    if has_break or (n_rows or 0) >= 2:
                        nontrivial += 1
                    key = "%s:%s" % (setting, "error" if n_rows is None else "rows")
                    classes[key] = classes.get(key, 0) + 1
                    if len(sub.fails) > before and len(sub.fails) > 50:
                        break
            if number % 4001 == 0 and len(sub.samples) < 3:
                sub.samples.append({"text": text, "widths": list(WIDTH_LISTS[number % 39]), "setting": "any"})
    sub.bulk(evals, nontrivial, classes)
    return sub


# -- exhaustive: characters some layer between the file and the rows might treat specially --------------------------------
# NUL, the C0 separators and form feed / vertical tab (str.splitlines breaks at them), Ctrl-Z (DOS end of file), DEL,
# NEL, no-break space, the Unicode line / paragraph separators, the byte order mark, an ideographic space, the last
# code point before the surrogates, a supplementary-plane character
SPECIALS = "\x00\x0b\x0c\x1a\x1c\x1d\x1e\x1f\x7f\x85\xa0\u2028\u2029\ufeff\u3000\ud7ff\U0001f600"
SPECIAL_WIDTH_LISTS = [(1,), (2,), (3,), (1, 1), (1, 2), (2, 1), (2, 2)]


def _specials_shard(args):
    from vlib.runner import Sub

    special, max_len = args
    sub = Sub("specials")
    evals = nontrivial = 0
    tmpdir = tempfile.mkdtemp(prefix="c13s-")
    ebcdic = _encodable(special, "cp037") and _encodable(special, "cp500")
    try:
        for length in range(1, max_len + 1):
            for chars in itertools.product("a" + special + "\n", repeat=length):
                text = "".join(chars)
                if special not in text:
                    continue
                for widths in SPECIAL_WIDTH_LISTS:
                    for setting in ("any", "lf", "none"):
                        judge(sub, text, widths, setting)
                        evals += 1
                        if ebcdic:
                            # the declared encoding is a mainframe code page (for a stream it says nothing at all)
                            judge(sub, text, widths, setting, "stream", "cp037")
                            if length <= 3:
                                judge(sub, text, widths, setting, "path", "cp500", tmpdir)
                            evals += 1
                        # by path: the declared codec must hand the character on as data as well
                        if length <= 3 or (text[0] == special or text[-1] == special):
                            judge(sub, text, widths, setting, "path", "utf-8", tmpdir)
                            evals += 1
                        nontrivial += 1
                        if len(sub.fails) > 50:
                            break
    finally:
        shutil.rmtree(tmpdir, ignore_errors=True)
    sub.samples.append({"text": "a" + special + "\na", "widths": [1, 1], "setting": "any",
                        "note": "all strings over {a, U+%04X, LF}" % ord(special)})
    sub.bulk(evals, nontrivial, {"specials:U+%04X" % ord(special): evals})
    return sub


# -- hypothesis: longer files with one edit ----------------------------------------
ALPHABET = "ab Z9-_.,;äß€中%{}\\'\"\t" + "\x1a\ufeff\x0c\x85\u2028"


def _encodable(ch, encoding):
    try:
        return ch.encode(encoding).decode(encoding) == ch
    except UnicodeError:
        return False


@st.composite
def file_cases(draw):
    widths = draw(st.lists(st.integers(1, 5), min_size=1, max_size=4))
    total = sum(widths)
    setting = draw(st.sampled_from(sorted(SETTINGS)))
    n_records = draw(st.integers(1, 6))
    alphabet = ALPHABET + ("\r\n" if setting == "none" and draw(st.booleans()) else "")
    records = [draw(st.text(alphabet=alphabet, min_size=total, max_size=total)) for _ in range(n_records)]
    text = ""
    for i, record in enumerate(records):
        text += record
        if setting != "none" and (i < n_records - 1 or draw(st.booleans())):
            text += draw(st.sampled_from(DELIMS[setting]))
    # also code pages of mainframes (EBCDIC: a line feed is byte 0x25, U+0085 is the host's own new line 0x15)
    encoding = draw(st.sampled_from(["utf-8", "utf-8", "utf-16", "cp1252", "latin-1", "utf-8-sig", "utf-32", "utf-16-le",
                                     "cp037", "cp500", "cp1140", "cp273"]))
    text = "".join(ch if _encodable(ch, encoding) else "cEFLN"[ord(ch) % 5] for ch in text)
    edit = draw(st.sampled_from(["none", "all-deletes", "all-inserts", "all-replaces"]))
    insert_char = draw(st.sampled_from("a \r\n"))
    via = draw(st.sampled_from(SOURCES))
    if via == "pipe" and len(text.encode(encoding)) > 30000:
        via = "path"
    return {"text": text, "widths": widths, "setting": setting, "edit": edit, "char": insert_char, "via": via,
            "encoding": encoding}


def check_file_case(sub, case):
    text = case["text"]
    widths = case["widths"]
    setting = case["setting"]
    edit = case["edit"]
    ch = case["char"]
    variants = [text]
    if edit == "all-deletes":
        variants += [text[:i] + text[i + 1:] for i in range(len(text))]
    elif edit == "all-inserts":
        variants += [text[:i] + ch + text[i:] for i in range(len(text) + 1)]
    elif edit == "all-replaces":
        variants += [text[:i] + ch + text[i + 1:] for i in range(len(text))]
    elif edit == "single":  # replay form: explicit variant
        variants = [text]
    tmpdir = reused_dir("c13") if case["via"] in ("path", "fd", "path-no-bom") else None
    try:
        for variant in variants:
            n_rows = judge(sub, variant, widths, setting, case["via"], case["encoding"], tmpdir)
            sub.evaluations += 1
        nontrivial = True  # every generated file has >= 1 record and most have delimiters; count those with breaks
        has_break = "\r" in text or "\n" in text
        sub.case((text, tuple(widths), setting, edit, ch, case["via"]), has_break or (n_rows or 0) >= 2 or nontrivial,
                 ["hyp:%s" % setting, "via:%s" % case["via"], "edit:%s" % edit, "enc:%s" % case["encoding"]],
                 sample={"text": text, "widths": widths, "setting": setting, "edit": edit, "via": case["via"]},
                 evals=0)
    finally:
        if tmpdir:
            shutil.rmtree(tmpdir, ignore_errors=True)


# -- long well-formed files whose delimiters straddle typical buffer sizes -------------------------------------------
def _boundary_cases(thorough):
    """Well-formed files of some ten thousand characters in which a CR LF (or a lone CR / LF) delimiter starts exactly
    at, just before or just after a multiple of a typical I/O block size."""
    cases = []
    targets = (4096, 8192, 16384) if not thorough else (512, 1024, 4096, 8192, 16384, 32768, 65536)
    for target in targets:
        for total in (1, 2, 3, 5, 8):
            for delta in (-2, -1, 0, 1):
                for critical in ("\r\n", "\r", "\n"):
                    for setting in ("any",) + ({"\r\n": ("crlf",), "\r": ("cr",), "\n": ("lf",)}[critical]):
                        cases.append({"target": target, "total": total, "delta": delta, "critical": critical,
                                      "setting": setting})
    return cases


def _boundary_text(case):
    total, critical, setting = case["total"], case["critical"], case["setting"]
    start = case["target"] - 1 + case["delta"]  # offset at which the critical delimiter starts
    filler = critical if setting != "any" else "\n"
    unit = total + len(filler)
    rows_before = (start - total) // unit
    # under 'any' the slack is taken up by CR LF delimiters (one character more than LF each)
    slack = (start - total) - rows_before * unit
    if setting != "any" and slack:
        return None
    if slack > rows_before:
        return None
    text = ""
    records = []
    for index in range(rows_before):
        record = ("%d" % (index % 10)) * total
        records.append(record)
        text += record + ("\r\n" if index < slack else filler)
    record = "x" * total
    records.append(record)
    text += record
    assert len(text) == start, (len(text), start)
    text += critical
    for index in range(3):
        record = "yz"[index % 2] * total
        records.append(record)
        text += record + filler
    return text, records


def check_boundary(sub, case):
    built = _boundary_text(case)
    if built is None:
        return
    text, records = built
    widths = [case["total"]] if case["total"] < 3 else [1, case["total"] - 1]
    fields = [("f%d" % i, w) for i, w in enumerate(widths)]
    sub.evaluations += 1
    label = "%s|%s" % (case["setting"], {"\r\n": "crlf", "\r": "cr", "\n": "lf"}[case["critical"]])
    try:
        rows = list(rowio.fixed_rows(io.StringIO(text, newline=""), "utf-8", fields, SETTINGS[case["setting"]]))
    except errors.DataFormatError as error:
        sub.fail("C13|boundary|wellformed-rejected|%s" % label, case,
                 "well-formed input of %d characters whose %r delimiter starts at offset %d was rejected: %s" % (
                     len(text), case["critical"], case["target"] - 1 + case["delta"], error))
        return
    except Exception as error:
        sub.fail("C13|boundary|exc|%s|%s" % (type(error).__name__, label), case, repr(error))
        return
    if rows != [split_row(r, widths) for r in records]:
        wrong = next((i for i, (a, b) in enumerate(zip(rows, records)) if "".join(a) != b), min(len(rows), len(records)))
        sub.fail("C13|boundary|wrong-rows|%s" % label, case,
                 "input of %d characters: row %d read as %r, expected %r (%d rows read, %d expected)" % (
                     len(text), wrong, rows[wrong] if wrong < len(rows) else None,
                     records[wrong] if wrong < len(records) else None, len(rows), len(records)))


def _boundary_shard(args):
    from vlib.runner import Sub

    index, count, cases = args
    sub = Sub("block-boundary")
    for case in cases[index::count]:
        check_boundary(sub, case)
    evals = sub.evaluations
    sub.evaluations = 0
    sub.bulk(evals, evals, {"block-boundary": evals})
    if index == 0 and cases:
        sub.samples.append(dict(cases[0], note="long file, delimiter at a block boundary"))
    return sub


# -- the widths of a CID that is put together in steps ------------------------------------------------------------------
def _growing_cid_shard(_):
    """A fixed-width CID built by program: some fields, a first use, more fields, then the reading that is judged -
    it goes by the widths the CID has when it is asked."""
    from cutplace import interface
    from vlib.runner import Sub

    sub = Sub("growing-cid")
    for widths in ((1, 2), (2, 1), (2, 2, 1), (1, 1, 3), (3, 2, 1, 1)):
        for first in range(1, len(widths)):
            for setting in ("lf", "any", "none"):
                cid = interface.Cid()
                cid.add_data_format_row(["Format", "Fixed"])
                cid.add_data_format_row(["Line delimiter", {"lf": "LF", "any": "Any", "none": "None"}[setting]])
                for index, width in enumerate(widths[:first]):
                    cid.add_field_format_row(["f%d" % index, "", "", str(width), "Text", ""])
                early = interface.field_names_and_lengths(cid)
                for index, width in enumerate(widths[first:], first):
                    cid.add_field_format_row(["f%d" % index, "", "", str(width), "Text", ""])
                fields = interface.field_names_and_lengths(cid)
                case = {"text": "", "widths": list(widths), "setting": setting, "via": "growing-cid", "first": first}
                sub.evaluations += 1
                sub.case(("growing-cid", widths, first, setting), True, ["growing-cid"])
                if [w for _, w in early] != list(widths[:first]) or [w for _, w in fields] != list(widths):
                    sub.fail("C13|growing-cid|widths", case, "field_names_and_lengths: %r after %d fields, %r after all %d "
                             "(declared widths %r)" % (early, first, fields, len(widths), widths))
                    continue
                total = sum(widths)
                record = "".join(chr(ord("a") + i % 26) for i in range(total))
                text = (record + DELIMS[setting][0] if setting != "none" else record) * 2
                try:
                    rows = list(rowio.fixed_rows(io.StringIO(text, newline=""), "utf-8", fields, SETTINGS[setting]))
                except Exception as error:
                    sub.fail("C13|growing-cid|%s" % type(error).__name__, dict(case, text=text),
                             "well-formed %r under the grown CID raised %s: %s" % (text, type(error).__name__, error))
                    continue
                if rows != [split_row(record, widths)] * 2:
                    sub.fail("C13|growing-cid|rows", dict(case, text=text), "%r read as %r" % (text, rows))
    return sub


def run(ctx):
    ctx.par(_growing_cid_shard, [0])
    boundary = _boundary_cases(not ctx.quick)
    ctx.par(_boundary_shard, [(i, ctx.workers, boundary) for i in range(ctx.workers)])
    max_len = ctx.n(7, 9)
    shards = ctx.workers * 4
    ctx.par(_exhaustive_shard, [(i, shards, max_len) for i in range(shards)])
    ctx.par(_specials_shard, [(special, ctx.n(4, 6)) for special in SPECIALS])
    ctx.hyp("files", file_cases, check_file_case, ctx.n(1500, 40000))


def replay(sub, case):
    if "target" in case:
        check_boundary(sub, case)
        return
    if "edit" in case:
        check_file_case(sub, case)
    else:
        tmpdir = reused_dir("c13") if case.get("via") == "path" else None
        try:
            judge(sub, case["text"], case["widths"], case["setting"], case.get("via", "stream"),
                  case.get("encoding", "utf-8"), tmpdir)
            sub.evaluations += 1
        finally:
            if tmpdir:
                shutil.rmtree(tmpdir, ignore_errors=True)
