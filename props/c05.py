"""C05 - uniqueness and distinct-count checks are decided over the whole data set."""
import io
import itertools

from hypothesis import strategies as st

from props import c04
from vlib import cidlib, gen_fields, gen_tables, model_validio
from vlib.runner import norm_message

from cutplace import errors, validio

PROPERTY_ID = "C05"
RULE = (
    "Exhaustive: every sequence of 0-4 rows (quick) / 0-5 rows (thorough) over 9 row symbols (k1 in {a,A}, k2 in {a,b} x v "
    "accepted or rejected by its field, plus a row with too few items) x key sets {k1; k1,k2; k2,k1} x both "
    "declaration orders of IsUnique and DistinctCount x the three error modes, the comparison 'k1 <op> n' rotating "
    "through all 6 operators x n in 0..4 with n written plainly or as a sum, product, difference or in brackets; "
    "the same sweep over 8 row symbols whose key values may be empty (both key fields allowed to be empty); every "
    "sequence of 0-4 / 0-5 rows over k1 in {a,b} x k2 in {a,y} x v accepted or rejected under two IsUnique checks (k1; "
    "k2) in both orders, every third time with a DistinctCount between them. Hypothesis: CIDs with 2-3 Text/Choice/Integer fields, an IsUnique check "
    "over 1-3 key fields and 0-2 DistinctCount checks in either order, tables of up to 10 rows over pools of 2-3 "
    "values per key field, rows rejected for other reasons interleaved, three modes. Oracle: dictionary model "
    "(vlib/model_validio): a row is rejected by IsUnique iff an earlier row that reached the check and was not "
    "rejected by it registered the same key; the error sits at the later row and refers back to the first; "
    "DistinctCount fails at the end iff the number of distinct values among rows that reached it violates the "
    "comparison. Non-trivial: >= 1 duplicate pair, a rejected row between two occurrences of a key, or a distinct "
    "count within 1 of the threshold; enumerated sequences are distinct by construction."
    "Every table is read once more with a validation limit (rows behind it reach no check; the end verdict is predicted from the rows in front of it). Field names may differ only in case."
    "The checks may be added to the CID after the reader was created."
    "A sweep over twelve key values that are close relatives (halves of surrogate pairs, composed / decomposed letters, '1' / '1.0' / '01', trailing blank)."
)
ASSUMPTIONS = [
    "the generated CIDs have at most one IsUnique check, so 'accepted' and 'registered' coincide there (DistinctCount "
    "never vetoes a row); the family 'several-unique' declares two and reads the statement literally: only an ACCEPTED "
    "earlier row makes a later one a duplicate (see the open finding C05|registered-by-rejected-row)",
    "key cells are texts for which text equality and value equality coincide",
]
EXHAUSTIVE = True
EXHAUSTIVE_SCOPE = ("all row sequences up to length 4 (quick) / 5 (thorough) over 9 row symbols, and over 8 row symbols with "
                    "empty key values, x 3 key sets x 2 orders x 3 modes; all row sequences up to length 4 / 5 over 8 row symbols under "
                    "two IsUnique checks in both orders")

_OPS = ("<", "<=", "==", "!=", ">=", ">")
_SYMBOLS = [[k1, k2, v] for k1 in "aA" for k2 in "ab" for v in ("x", "z")] + [["a"]]


# key values that some way of comparing texts takes for the same: different halves of surrogate pairs (what a lenient
# decoder makes of bytes it cannot read), composed and decomposed letters, characters that differ in case only in
# some languages, trailing blanks, text and number spellings of the same number
_TWIN_SYMBOLS = [[k1, "k", "x"] for k1 in ("M\udce4", "M\udcf6", "M?", "e\u0301", "\u00e9", "\u0130", "i", "1", "1.0",
                                           "01", "a ", "a")]
_EMPTY_SYMBOLS = [[k1, k2, v] for k1 in ("", "a") for k2 in ("", "a") for v in ("x", "z")]


def _small_spec(keys, op, n, count_first, style=0, empty=False):
    fmt = gen_fields.format_spec("delimited")
    text = lambda name: {"name": name, "empty": empty, "length": "", "length_items": None, "type": "Text",  # noqa: E731
                         "rule": "", "model": {}}
    fields = [text("k1"), text("k2"),
              {"name": "v", "empty": False, "length": "", "length_items": None, "type": "Choice", "rule": "x, y",
               "model": {"choices": ["x", "y"]}}]
    unique = {"desc": ["keys are unique", "keys are 100% unique", "keys %s {0}"][style % 3], "type": "IsUnique",
              "rule": ", ".join(keys), "keys": list(keys)}
    fmt["layout"] = [None, "early-checks", None, "both", "late-properties", None][style % 6]
    count = {"desc": ["count of k1", "count of k1 (%d)", "50% of k1"][style // 3 % 3], "type": "DistinctCount", "rule": "k1 %s %s" % (op, gen_tables.spell_count(n, style)),
             "field": "k1", "op": op, "n": n}
    checks = [count, unique] if count_first else [unique, count]
    if fmt["layout"] in ("early-checks", "both"):
        # every check then stands behind the last field it names: the model follows the order of declaration
        checks.sort(key=lambda c: gen_fields.last_named_field(["k1", "k2", "v"], c["rule"]))
    return {"fmt": fmt, "fields": fields, "checks": checks}


def _nontrivial(spec, rows, expected):
    outcomes = [o for o in expected["outcomes"] if o is not None]
    if any(o[0] == "error" and o[1] == "CheckError" for o in outcomes):
        return True
    names = [f["name"] for f in spec["fields"]]
    for check in spec["checks"]:
        if check["type"] == "DistinctCount":
            reached = set()
            for row, o in zip(rows[spec["fmt"].get("header", 0):], outcomes):
                if o[0] == "row" or (o[0] == "error" and o[1] == "CheckError"):
                    reached.add(row[names.index(check["field"])])
            if abs(len(reached) - check["n"]) <= 1:
                return True
        else:
            seen = {}
            for index, (row, o) in enumerate(zip(rows[spec["fmt"].get("header", 0):], outcomes)):
                if len(row) != len(names):
                    continue
                key = tuple(row[names.index(k)] for k in check["keys"])
                if key in seen and any(x[0] == "error" for x in outcomes[seen[key] + 1:index]):
                    return True
                seen.setdefault(key, index)
    return False


def judge(sub, case, spec, rows, stored, source_factory, base_name, label):
    """Read in three modes (fresh CID each) and compare with the dictionary model."""
    expected = model_validio.predict(spec, stored)
    if expected["tainted"]:
        sub.cls("tainted")
        return expected
    wanted = [o for o in expected["outcomes"] if o is not None]
    for mode in ("yield", "continue", "raise"):
        try:
            cid = c04.load(spec)
        except Exception as error:
            sub.fail("C05|cid-load|%s|%s" % (type(error).__name__, norm_message(error)), case,
                     "generated CID rejected: %s" % error)
            return expected
        items, ended = c04.read_all(cid, source_factory(mode), mode)
        sub.evaluations += 1
        if ended is not None and not isinstance(ended, errors.DataError):
            sub.fail("C05|exception|%s|%s" % (type(ended).__name__, mode), case,
                     "mode %s raised %s: %s" % (mode, type(ended).__name__, ended))
            continue
        if mode == "yield":
            if c04.compare_outcomes(sub, "C05|yield", case, spec, expected, items, base_name, label):
                c04.compare_end(sub, "C05|yield", case, expected, ended, label)
        elif mode == "continue":
            rows_wanted = [o[1] for o in wanted if o[0] == "row"]
            if items != rows_wanted:
                sub.fail("C05|continue|rows-differ|%s" % label, case,
                         "continue delivered %r, the model accepts %r" % (items, rows_wanted))
            c04.compare_end(sub, "C05|continue", case, expected, ended, label)
        else:
            first = next((o for o in wanted if o[0] == "error"), None)
            before = []
            for o in wanted:
                if o[0] == "error":
                    break
                before.append(o[1])
            if items != before:
                sub.fail("C05|raise|prefix-differs|%s" % label, case,
                         "raise delivered %r before stopping, the model says %r" % (items, before))
            if first is None:
                c04.compare_end(sub, "C05|raise", case, expected, ended, label)
            elif ended is None:
                sub.fail("C05|raise|did-not-raise|%s" % label, case, "the model rejects line %d" % first[2])
            elif type(ended).__name__ != first[1] or ended.location is None or ended.location.line != first[2]:
                sub.fail("C05|raise|other-error|expected-%s|got-%s|%s" % (first[1], type(ended).__name__, label), case,
                         "raise must stop with %s at line %d but raised %r" % (first[1], first[2], ended))
    # once more with a validation limit: the rows behind it are handed on without reaching any check; what the
    # checks say when the reading is finished depends on the rows in front of it alone
    header = spec["fmt"].get("header", 0)
    data_rows = max(0, len(stored) - header)
    if data_rows >= 2:
        limit = header + 1 + (len(stored) + len(spec["checks"])) % (data_rows - 1)
        limited = model_validio.predict(spec, stored, validate_until=limit)
        if not limited["tainted"]:
            try:
                cid = c04.load(spec)
            except Exception:
                return expected
            items, ended = c04.read_all(cid, source_factory("yield"), "yield", validate_until=limit)
            sub.evaluations += 1
            if ended is not None and not isinstance(ended, errors.DataError):
                sub.fail("C05|limit|exception|%s" % type(ended).__name__, dict(case, limit=limit),
                         "validate_until=%d raised %s: %s" % (limit, type(ended).__name__, ended))
            elif c04.compare_outcomes(sub, "C05|limit", dict(case, limit=limit), spec, limited, items, base_name,
                                      label):
                c04.compare_end(sub, "C05|limit", dict(case, limit=limit), limited, ended, label)
    # a reader that exists before the CID has (all of) its checks: what counts is the CID at the time of reading
    if spec["checks"] and spec["fmt"].get("layout") in (None, "late-properties"):
        try:
            cid = cidlib.load_cid(cidlib.cid_rows(spec["fmt"], spec["fields"], []))
            reader = validio.Reader(cid, source_factory("yield"), on_error="yield")
            for row in gen_tables.check_rows(spec):
                cid.add_check_row(list(row[1:]))
        except Exception as error:
            sub.fail("C05|late-checks|setup|%s" % type(error).__name__, case,
                     "adding the checks after the reader was created raised %s: %s" % (type(error).__name__, error))
            return expected
        items, ended = [], None
        try:
            with reader:
                for item in reader.rows():
                    items.append(item)
        except Exception as error:  # noqa: judged below
            ended = error
        sub.evaluations += 1
        if ended is not None and not isinstance(ended, errors.DataError):
            sub.fail("C05|late-checks|exception|%s" % type(ended).__name__, case,
                     "reading raised %s: %s" % (type(ended).__name__, ended))
        elif c04.compare_outcomes(sub, "C05|late-checks", case, spec, expected, items, base_name, label):
            c04.compare_end(sub, "C05|late-checks", case, expected, ended, label)
    return expected


def _sweep_shard(args):
    from vlib.runner import Sub

    index, count, max_len = args[:3]
    empty = len(args) > 3 and args[3] is True
    alphabet = _EMPTY_SYMBOLS if empty else _SYMBOLS
    if len(args) > 3 and args[3] == "twins":
        alphabet = _TWIN_SYMBOLS
    sub = Sub("sweep")
    evals = nontrivial = number = 0
    classes = {}
    for length in range(0, max_len + 1):
        for symbols in itertools.product(range(len(alphabet)), repeat=length):
            number += 1
            if number % count != index:
                continue
            rows = [list(alphabet[s]) for s in symbols]
            text = gen_tables.delimited_text(rows)
            for key_index, keys in enumerate((("k1",), ("k1", "k2"), ("k2", "k1"))):
                for count_first in (False, True):
                    pick = (number * 7 + key_index * 3 + count_first) % 30
                    op, n = _OPS[pick % 6], pick // 6
                    spec = _small_spec(keys, op, n, count_first, number + key_index, empty)
                    case = {"spec": spec, "rows": rows, "via": "stream"}
                    before = sub.evaluations
                    expected = judge(sub, case, spec, rows, rows, lambda mode: io.StringIO(text, newline=""), "<io>",
                                     "sweep")
                    evals += sub.evaluations - before
                    sub.evaluations = before
                    if _nontrivial(spec, rows, expected):
                        nontrivial += 1
                    key = "sweep:end:%s" % ("ok" if expected["end"] == "ok" else "check-error")
                    classes[key] = classes.get(key, 0) + 1
                    dup = sum(1 for o in expected["outcomes"] if o and o[0] == "error" and o[1] == "CheckError")
                    classes["sweep:duplicates:%d" % min(dup, 3)] = classes.get("sweep:duplicates:%d" % min(dup, 3), 0) + 1
            if number % 1501 == 0 and len(sub.samples) < 3:
                sub.samples.append({"rows": rows, "keys": "k1 / k1,k2 / k2,k1", "count": "k1 <op> n rotating"})
    sub.bulk(evals, nontrivial, classes)
    return sub


@st.composite
def cases(draw):
    spec = draw(gen_tables.cid_specs(kinds=("delimited", "fixed"), max_fields=3, max_header=1, checks="always",
                                     types=("Text", "Choice", "Integer"), key_pool=2))
    for field in spec["fields"]:
        field["accept"] = [c for c in field["accept"] if c.strip()][:3] or field["accept"][:1]
    rows = draw(gen_tables.tables(spec, max_rows=10))
    return {"spec": spec, "rows": rows, "via": "stream"}


def check_case(sub, case):
    spec, rows = case["spec"], case["rows"]
    if spec["fmt"]["format"] == "fixed":
        text = gen_tables.fixed_text(rows, spec["fmt"])
    else:
        text = gen_tables.delimited_text(rows, fmt=spec["fmt"])
    expected = judge(sub, case, spec, rows, rows, lambda mode: io.StringIO(text, newline=""), "<io>",
                     spec["fmt"]["kind"])
    outcomes = [o for o in expected["outcomes"] if o is not None]
    classes = ["format:" + spec["fmt"]["kind"], "checks:%d" % len(spec["checks"]),
               "duplicates:%d" % min(3, sum(1 for o in outcomes if o[0] == "error" and o[1] == "CheckError")),
               "end:%s" % (expected["end"] if isinstance(expected["end"], str) else "check-error")]
    sub.case((str(spec["checks"]), str([f["rule"] for f in spec["fields"]]), rows), _nontrivial(spec, rows, expected),
             classes, sample={"checks": [[c["type"], c["rule"]] for c in spec["checks"]], "rows": rows[:8],
                              "expected": [o[0] + (":" + o[1] if o[0] == "error" else "") for o in outcomes][:8],
                              "end": expected["end"]}, evals=0)


_JOINERS = ["\x1f", "\x1e", "\x1d", "\x1c", "\t", " ", "|", "/", ":", ";", "-", "_", ".", "\\", "\u2028", "'", ","]


def _join_collision_cases():
    """Two-field keys whose values differ although their concatenation with a joiner is equal: IsUnique compares the
    values 'in all of K', so both rows are accepted - and a real duplicate of either is still rejected."""
    cases = []
    for joiner in _JOINERS:
        first = ["a" + joiner + "b", "c", "x"]
        second = ["a", "b" + joiner + "c", "x"]
        for keys in (("k1", "k2"), ("k2", "k1")):
            for rows in ([first, second], [second, first], [first, second, list(first)], [first, second, list(second)]):
                cases.append({"joiner": joiner, "keys": list(keys), "rows": [list(r) for r in rows]})
    return cases


def _join_collisions(ctx):
    sub = ctx.sub("join-collisions")
    for item in _join_collision_cases():
        spec = _small_spec(tuple(item["keys"]), "<=", 4, False)
        rows = item["rows"]
        text = gen_tables.delimited_text(rows)
        case = {"spec": spec, "rows": rows, "via": "stream"}
        judge(sub, case, spec, rows, rows, lambda mode: io.StringIO(text, newline=""), "<io>", "join")
        sub.case(("join", item["joiner"], tuple(item["keys"]), len(rows)), True, ["join-collision"],
                 sample={"keys": item["keys"], "rows": rows} if item["joiner"] == "\x1f" and len(rows) == 3 else None,
                 evals=0)
    ctx.merge(sub)


# -- several uniqueness checks in one CID ------------------------------------------------------------------------
# the two key columns share a value ("a"): a key of one check must not count as a key of the other
_TWO_KEY_SYMBOLS = [[k1, k2, v] for k1 in "ab" for k2 in "ay" for v in ("x", "z")]


def _several_unique_spec(order, with_count):
    fmt = gen_fields.format_spec("delimited")
    text = lambda name: {"name": name, "empty": False, "length": "", "length_items": None, "type": "Text",  # noqa: E731
                         "rule": "", "model": {}}
    fields = [text("k1"), text("k2"),
              {"name": "v", "empty": False, "length": "", "length_items": None, "type": "Choice", "rule": "x, y",
               "model": {"choices": ["x", "y"]}}]
    checks = [{"desc": "%s is unique" % name, "type": "IsUnique", "rule": name, "keys": [name]} for name in order]
    if with_count:
        checks.insert(1, {"desc": "few k2", "type": "DistinctCount", "rule": "k2 <= 1", "field": "k2", "op": "<=", "n": 1})
    return {"fmt": fmt, "fields": fields, "checks": checks}


def _registered_by_rejected_row(expected, items):
    """Is the first difference between the model's outcomes and the items of a 'yield' pass a row the model accepts and
    cutplace rejects as duplicate OF A ROW THAT WAS ITSELF REJECTED by a check?  (cutplace registers the key of a row
    with every uniqueness check the row passes, also when a check declared later rejects the row.)"""
    wanted = [o for o in expected["outcomes"] if o is not None]
    if len(wanted) != len(items):
        return False
    for index, (outcome, item) in enumerate(zip(wanted, items)):
        accepted = not isinstance(item, Exception)
        if outcome[0] == "row" and accepted:
            continue
        if outcome[0] == "error" and not accepted and type(item).__name__ == outcome[1]:
            if outcome[1] != "CheckError" or item.see_also_location is None or item.see_also_location.line == outcome[5]:
                continue
        # the first difference: cutplace reports a duplicate (where the model accepts the row, or names another first
        # occurrence) and the row it refers to is one the model has rejected by a check
        if isinstance(item, errors.CheckError) and item.see_also_location is not None:
            first = item.see_also_location.line
            return first < index and wanted[first][0] == "error" and wanted[first][1] == "CheckError"
        return False
    return False


def _several_unique_shard(args):
    from vlib.runner import Sub

    index, count, max_len = args
    sub = Sub("several-unique")
    evals = nontrivial = number = 0
    classes = {}
    for length in range(0, max_len + 1):
        for symbols in itertools.product(range(len(_TWO_KEY_SYMBOLS)), repeat=length):
            number += 1
            if number % count != index:
                continue
            rows = [list(_TWO_KEY_SYMBOLS[s]) for s in symbols]
            text = gen_tables.delimited_text(rows)
            for order in (("k1", "k2"), ("k2", "k1")):
                spec = _several_unique_spec(order, number % 3 == 0)
                case = {"spec": spec, "rows": rows, "via": "stream", "family": "several-unique"}
                expected = model_validio.predict(spec, rows)
                cid = c04.load(spec)
                items, ended = c04.read_all(cid, io.StringIO(text, newline=""), "yield")
                evals += 1
                if _registered_by_rejected_row(expected, items):
                    # one root cause, one signature; the rest of this table is decided by the stray key
                    sub.fail("C05|registered-by-rejected-row", case,
                             "a row is rejected as duplicate of a row that was itself rejected (by a uniqueness check "
                             "declared later): rows %r, checks %r, items %r" % (
                                 rows, [c["rule"] for c in spec["checks"]], [str(i) for i in items]))
                    classes["several-unique:registered-by-rejected-row"] = classes.get(
                        "several-unique:registered-by-rejected-row", 0) + 1
                    continue
                before = sub.evaluations
                judge(sub, case, spec, rows, rows, lambda mode: io.StringIO(text, newline=""), "<io>", "several-unique")
                evals += sub.evaluations - before
                sub.evaluations = before
                if any(o and o[0] == "error" and o[1] == "CheckError" for o in expected["outcomes"]):
                    nontrivial += 1
            if number % 701 == 0 and len(sub.samples) < 2:
                sub.samples.append({"rows": rows, "checks": "IsUnique k1; IsUnique k2 (both orders)"})
    sub.bulk(evals, nontrivial, classes)
    return sub


def run(ctx):
    _join_collisions(ctx)
    shards_u = ctx.workers
    ctx.par(_several_unique_shard, [(i, shards_u, ctx.n(4, 5)) for i in range(shards_u)])
    max_len = ctx.n(4, 5)
    shards = ctx.workers * 2
    ctx.par(_sweep_shard, [(i, shards, max_len) for i in range(shards)])
    # the same sweep over keys that may be empty (both key fields allowed to be empty; 8 row symbols)
    ctx.par(_sweep_shard, [(i, shards, max_len, True) for i in range(shards)])
    # ... and over twelve keys that are different texts but close relatives (sequences up to length 3)
    ctx.par(_sweep_shard, [(i, shards, 3, "twins") for i in range(shards)])
    ctx.hyp("generated", cases, check_case, ctx.n(1500, 40000))


def replay(sub, case):
    if case.get("family") == "several-unique":
        spec, rows = case["spec"], case["rows"]
        expected = model_validio.predict(spec, rows)
        text = gen_tables.delimited_text(rows)
        items, _ = c04.read_all(c04.load(spec), io.StringIO(text, newline=""), "yield")
        if _registered_by_rejected_row(expected, items):
            sub.fail("C05|registered-by-rejected-row", case, "a row is rejected as duplicate of a row that was itself "
                     "rejected: rows %r, items %r" % (rows, [str(i) for i in items]))
        else:
            judge(sub, case, spec, rows, rows, lambda mode: io.StringIO(text, newline=""), "<io>", "several-unique")
        return
    check_case(sub, case)
