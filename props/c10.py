"""C10 - CID and data problems surface as cutplace errors, never as internal failures.

Every case is a small JSON dict; ``kind`` says what is made hostile:

    {"kind": "cid", "format": F, "subs": [{"row": r, "col": c, "value": V}, ...]}      1 or 2 cells of the base CID
    {"kind": "data", "format": F, "row": r, "col": c, "value": V, "variant": "quoted" | "raw" | "fit" | "cell"}
    {"kind": "bytes", "format": "delimited" | "fixed", "encoding": E, "table": "ascii" | "unicode",
     "op": "insert" | "replace" | "truncate", "offset": o, "byte": b}
    {"kind": "container", "source": "gen:ods" | "gen:xlsx" | "<file under tests/data>", "fault": "truncate" | "bitflip",
     "offset": o, "bit": b}

``V`` is the text itself, or ``{"repeat": "x", "n": 10240}`` for the long value (see ``enc_value``).

Oracle (three-valued only in the sense that *success and every cutplace error are both fine*): the only exception that
may escape ``Cid.read`` is ``errors.InterfaceError``; once the CID is loaded the only exceptions that may escape
``cutplace.rows`` (modes raise and yield), ``cutplace.validate``, ``cutplace.Writer`` / ``write_row`` / ``close`` are
``errors.DataError`` and its subclasses; ``applications.main`` must not return 4.

HARNESS SAFETY.  ``checks.DistinctCountCheck`` passes the remainder of its rule to ``eval``.  Whatever this module puts
into the rule cell of a check row that is (or could become) a DistinctCount check passes ``eval_safe``: words are
names of declared fields only, no ``**``, ``__``, ``<<``, ``>>``, no repetition operator next to a long number.  The
pool never contains the text ``DistinctCount`` (so a hostile type cell cannot turn another check row into one), and
``_guard_rows`` re-checks the finished rows of every case (also replayed ones) before cutplace sees them.  Length
cells never get a whole number between 10**4 and 2**63 (cutplace builds texts of that many characters for Integer
fields and for fixed-width padding), RegEx rules get no nested quantifiers, RegEx / Pattern rules not the 10 kB text.
"""
import contextlib
import csv
import io
import json
import logging
import os
import re
import shutil
import signal
import sys
import tempfile

from vlib import enc_ods, enc_xlsx, repo
from vlib.runner import HarnessError, Sub

import cutplace
from cutplace import applications, errors, interface

PROPERTY_ID = "C10"
RULE = (
    "Four valid base CIDs (delimited, fixed, excel, ods; each with 8 fields = all 8 field types, an IsUnique and a "
    "DistinctCount check and every data format property the format knows) with matching valid data (csv text, fixed "
    "text, generated xlsx and ods; header + 3 rows). (1) cid-1: every hostile value of a finite pool (see POOL: "
    "unterminated quotes and brackets, stray operators, backslash, NUL, tabs / line breaks with indentation, huge, "
    "negative, fractional numbers, 0x, 1__0, string prefixes, non-ASCII letters and digits, NaN, Infinity, sNaN, 1e999, "
    "empty, blanks, a 10 kB text, duplicate date placeholders, regex fragments, non-text codec names, names of "
    "fields / types / keywords) is put into every cell of every D, F and C row (name, value; name, example, empty "
    "mark, length, type, rule; description, type, rule), one cell at a time, exhaustively in both tiers; the CID is "
    "loaded with Cid.read and, when it loads, the valid rows are written with cutplace.Writer (delimited, fixed) and "
    "the valid data is read by path with cutplace.rows in modes raise and yield, from a stream in mode yield, and "
    "with cutplace.validate; then applications.main(['cutplace', cid.csv, data]) runs on the same material. (2) "
    "cid-2: two cells at once - exhaustively the family (example of an F row removed, length or rule of that row "
    "hostile) so that hostile rules reach the data stages, everything else sampled by Hypothesis (small sample in "
    "quick). (3) data: the same pool in every cell "
    "of every row of the valid data (delimited: properly quoted and spliced raw; fixed: cut / padded to the width and "
    "spliced raw; xlsx / ods: as cell text), read, validated and written under the unmodified CID. (4) bytes: csv and "
    "fixed bytes in utf-8, ascii, cp1252, utf-16 with one byte inserted / replaced (FF 81 C3) or the file cut at "
    "every offset, read by path under the CID declaring that encoding. (5) containers: the generated ods and xlsx "
    "and every .xls / .xlsx / .ods under tests/data cut at every offset (stride 1 below 2 kB, else 64), with every "
    "single bit of the zip directory (last 128 bytes) / of the .xls header (first 80 bytes) flipped, with single "
    "bit flips anywhere (Hypothesis), the generated ods also with every foreign ODF attribute x 10 values on the "
    "first, second and sixth table / row / cell / paragraph and with a paragraph's text wrapped in 1 / 40 / 3000 "
    "nested text:span or a row in as many nested table:table-row-group, read by path. Oracle: only InterfaceError may escape Cid.read, only DataError (and "
    "subclasses) the data stages, main never returns 4. A case is non-trivial when a cutplace error was reached or "
    "the CID loaded with a changed parse; distinct by its JSON."
    "ODS repeat counts that are no counts (not huge ones) as attribute faults."
    "Excel cells formatted as dates holding numbers no date system can name (serials 0..61, negative, beyond year 9999), in header and data rows."
)
ASSUMPTIONS = [
    "OSError for unreadable paths is not provoked: every path given to cutplace exists and is a readable regular file",
    "the rule cell of a (potential) DistinctCount check only gets texts passing eval_safe (field names, digits, "
    "comparison / arithmetic operators except ** << >>, brackets, quotes, blanks); length cells get no whole number "
    "in 10**4 .. 2**63; RegEx rules no nested quantifiers; RegEx / Pattern rules not the 10 kB text - harness "
    "safety, not a claim about cutplace",
    "a case that uses more than 3 s of processor time (observed: xlrd spinning on a damaged sector chain of an .xls file) is counted as class 'timeout' and not judged (cost is not one of the listed properties)",
    "whether an accepted hostile value is *rightly* accepted, and which cutplace error class is chosen among the "
    "permitted ones, is neutral here (C02, C09, C11 judge that)",
    "within one case the same (exception type, innermost cutplace frame) is reported for the first stage showing "
    "it only (order cid-load, write, read, validate, main), so one root cause gives one signature per cell kind",
    "values that an ods / xlsx cell cannot store (control characters) are skipped for those formats (class "
    "data|*|unrepresentable)",
    "the .xls / .xlsx / .ods fixtures are the files of the checked-out tree (tests/data)",
    "a failing error rendering (str(error)) is counted (class render-failed) but not judged",
]
EXHAUSTIVE = True
EXHAUSTIVE_SCOPE = (
    "pool x every cell of every D/F/C row of the 4 base CIDs, one at a time; pool x every cell of the valid data of "
    "the 4 formats; byte insert/replace/cut at every offset of csv and fixed data in 4 encodings; truncation of every "
    "container at every offset of the stated stride and all single bit flips in its directory / header region (other "
    "bit flips and other cell pairs are sampled)"
)

FORMATS = ("delimited", "fixed", "excel", "ods")
TIME_LIMIT_S = 3
LONG = {"repeat": "x", "n": 10240}

# -- the hostile pool --------------------------------------------------------------------------------------
POOL = [
    ("empty", ""), ("blank", " "), ("blanks", "    "),
    ("dq-open", '"abc'), ("sq-open", "'abc"), ("dq-lone", '"'), ("sq-lone", "'"), ("triple-open", '"""abc'),
    ("quoted-backslash", '"\\"'),
    ("paren-open", "("), ("paren-close", ")"), ("bracket-open", "["), ("brace-open", "{"), ("brace-close", "}"),
    ("brackets-mixed", "(]"),
    ("backslash", "\\"),
    ("star", "*"), ("minus", "-"), ("minus-minus", "--1"), ("ellipsis", "..."), ("ellipsis-twice", "1...2...3"),
    ("colon", ":"), ("comma", ","), ("commas", ",,"), ("less", "<"), ("percent", "%"), ("hash", "#x"),
    ("semicolon", ";"), ("dot", "."),
    ("nul", "\x00"), ("tab", "\t"), ("tab-indent", "\tx"), ("line-break-indent", "a\n  b"),
    ("indent-dedent", "  a\n b"), ("crlf", "a\r\nb"), ("lf", "\n"),
    ("huge", "99999999999999999999"), ("huge-negative", "-99999999999999999999"), ("int32", "2147483648"),
    ("negative", "-1"), ("zero", "0"), ("fraction", "1.5"), ("negative-fraction", "-0.5"), ("hex-empty", "0x"),
    ("hex-huge", "0xFFFFFFFFFFFFFFFFFFFF"), ("underscores", "1__0"), ("leading-zero", "007"),
    ("u-prefix", 'u"x"'), ("f-prefix", 'f"{x}"'),
    ("letter", "\u00e4"), ("cjk", "\u4e2d"), ("arabic-digit", "\u0663"), ("superscript", "\u00b2"),
    ("astral", "\U0001f600"), ("nbsp", "\u00a0"),
    ("nan", "NaN"), ("infinity", "Infinity"), ("snan", "sNaN"), ("exp-huge", "1e999"),
    ("long", LONG),
    ("date-dd-dd", "DD.DD"), ("date-hh-hh", "hh:hh"), ("date-directive", "%d.%d"),
    # the same date parts in the spellings of other tools (lower case, Java style), next to the documented ones
    ("date-dd-lower", "DD.MM.YYYY (dd)"), ("date-yyyy-lower", "YYYY yyyy"), ("date-hh-upper", "hh:mm HH"),
    ("date-lower-only", "dd.mm.yyyy"), ("date-ss-upper", "ss SS"), ("date-mm-both", "MM mm MM"),
    ("re-star", "*a"), ("re-range", "[z-a]"), ("re-quantifier", "a{2,1}"), ("re-names", "(?P<n>a)(?P<n>b)"),
    ("re-backref", "\\1"), ("re-flag", "(?i"), ("re-flags-clash", "(?a)(?u)x"), ("re-flag-late", "x(?i)"),
    ("re-flag-local-clash", "(?a-a:x)"), ("re-repeat-huge", "a{99999999999999999999}"),
    ("codec-hex", "hex"), ("codec-rot13", "rot13"), ("codec-undefined", "undefined"),
    ("field-name", "customer_id"), ("field-names", "customer_id, customer_id"), ("keyword", "class"),
    ("type-name", "Integer"), ("type-dotted", "fields.Integer"), ("check-name", "IsUnique"),
    # names that mean something elsewhere in a data format: other properties and the object's own attributes
    ("property-format", "Format"), ("property-sheet", "Sheet"), ("property-quoting", "quoting"),
    ("attribute-is-valid", "is valid"), ("attribute-is-valid-underscore", "is_valid"),
    # quoted texts whose backslash escape is incomplete or names nothing
    ("escape-x-short", '"\\x"'), ("escape-x-one-digit", "'\\x4'"), ("escape-u-short", '"\\u12"'),
    ("escape-big-u-short", '"\\U0001"'), ("escape-name-unknown", '"\\N{foo}"'), ("escape-name-open", '"\\N{"'),
    ("escape-octal-big", '"\\777"'), ("escape-out-of-range", '"\\U00110000"'), ("escape-lone-surrogate", '"\\ud800"'),
    # a line continuation, then something
    ("continuation", "\\\ncustomer_id"), ("continuation-only", "\\\n"),
    # numbers with more digits than Python converts between int and decimal text (4300)
    ("hex-beyond-int-max-str-digits", {"prefix": "0x", "repeat": "f", "n": 3600}),
    ("digits-beyond-int-max-str-digits", {"repeat": "9", "n": 4400}),
    ("range-to-hex-beyond-int-max-str-digits", {"prefix": "0...0x", "repeat": "f", "n": 3600}),
    # characters whose lower(), casefold() and upper() forms disagree (Cherokee, dotted capital I, sharp s, Kelvin)
    ("cherokee-small", "\uab70xcel"), ("cherokee-capital", "\u13a0eader"), ("dotted-capital-i", "\u0130"),
    ("sharp-s", "\u00df"), ("kelvin-sign", "\u212a"), ("final-sigma", "\u03a3\u03c2"),
    # half of a surrogate pair: text that came from a lenient decoder (no UTF-8 form)
    ("lone-surrogate", "\ud83d"), ("surrogate-in-text", "a\udc00b"), ("surrogate-quoted", '"\ud800"'),
    # an indented line, then a NUL on a line of its own
    ("indent-then-nul", "1\n 2\n\x00"), ("tab-indent-then-nul", "customer_id\n\t,kind\n\x00"),
    # nesting deeper than the interpreter's recursion limit
    ("parens-deep", {"repeat": "(", "n": 3000}), ("parens-deep-closed", {"nest": ["(", "a", ")"], "n": 3000}),
    ("brackets-deep-closed", {"nest": ["[", "1", "]"], "n": 3000}),
    # exponents no C int holds, and exponents that make a number of too many digits to spell out
    ("exp-beyond-c-int", "1e-3000000000"), ("exp-beyond-c-int-range", "1e-3000000000...5"),
    ("exp-positive-beyond-c-int", "0...1e3000000000"),
]
POOL_NAMES = [name for name, _ in POOL]
assert len(set(POOL_NAMES)) == len(POOL_NAMES)


def enc_value(value):
    return value


def dec_value(value):
    if isinstance(value, dict) and "nest" in value:
        nest = value["nest"]
        if sorted(value) != ["n", "nest"] or not isinstance(nest, list) or len(nest) != 3 \
                or not all(isinstance(t, str) and len(t) <= 4 for t in nest) or not isinstance(value["n"], int) \
                or not 0 <= value["n"] <= 5000:
            raise HarnessError("malformed value %r" % (value,))
        return nest[0] * value["n"] + nest[1] + nest[2] * value["n"]
    if isinstance(value, dict):
        if sorted(set(value) - {"prefix"}) != ["n", "repeat"] or not isinstance(value["repeat"], str) \
                or len(value["repeat"]) != 1 or not isinstance(value["n"], int) or not 0 <= value["n"] <= 20000 \
                or not isinstance(value.get("prefix", ""), str) or len(value.get("prefix", "")) > 8:
            raise HarnessError("malformed value %r" % (value,))
        return value.get("prefix", "") + value["repeat"] * value["n"]
    if not isinstance(value, str):
        raise HarnessError("malformed value %r" % (value,))
    return value


assert all("distinctcount" not in dec_value(v).lower() for _, v in POOL), "harness safety: see module text"

# -- base CIDs and valid data ------------------------------------------------------------------------------
FIELD_NAMES = ["customer_id", "amount", "color", "kind", "born", "code", "zip_code", "surname"]
FIELD_TYPES = ["Integer", "Decimal", "Choice", "Constant", "DateTime", "Pattern", "RegEx", "Text"]
FIXED_WIDTHS = [5, 9, 9, 2, 10, 6, 4, 12]
_FIELD_LENGTHS = ["1...5", "", "", "2", "10", "...8", "", "...60"]
_FIELD_RULES = ["0...99999", "-9999.99...9999.99", 'red, green, "dark blue"', "v1", "DD.MM.YYYY", "??-*", "[0-9]{4}", ""]
_FIELD_EMPTY = ["", "X", "", "", "X", "", "X", ""]
_AMOUNTS = {
    "delimited": ["1,234.50", "", "-0.75"],
    "fixed": ["1.234,50", "", "-0,75"],
    "excel": ["1234.50", "", "-0.75"],
    "ods": ["1234.50", "", "-0.75"],
}
_PROPERTY_ROWS = {
    "delimited": [["D", "Format", "Delimited"], ["D", "Encoding", "utf-8"], ["D", "Header", "1"],
                  ["D", "Allowed characters", "0..."], ["D", "Item delimiter", ";"], ["D", "Line delimiter", "LF"],
                  ["D", "Quote character", '"'], ["D", "Escape character", '"'], ["D", "Quoting", "minimal"],
                  ["D", "Skip initial space", "false"], ["D", "Decimal separator", "."],
                  ["D", "Thousands separator", ","]],
    "fixed": [["D", "Format", "Fixed"], ["D", "Encoding", "utf-8"], ["D", "Header", "1"],
              ["D", "Allowed characters", "32..."], ["D", "Line delimiter", "LF"], ["D", "Decimal separator", ","],
              ["D", "Thousands separator", "."]],
    "excel": [["D", "Format", "Excel"], ["D", "Header", "1"], ["D", "Sheet", "1"], ["D", "Allowed characters", "0..."],
              ["D", "Encoding", "utf-8"]],
    "ods": [["D", "Format", "ODS"], ["D", "Header", "1"], ["D", "Sheet", "2"]],
}
CHECK_ROWS = [["C", "customer must be unique", "IsUnique", "customer_id, kind"],
              ["C", "distinct colors", "DistinctCount", "color < 5"]]


def table_for(fmt, kind="unicode"):
    """Valid data: header row + 3 data rows of text cells (unpadded)."""
    amounts = _AMOUNTS[fmt]
    surnames = ["Smith", "Müller", "中村"] if kind == "unicode" else ["Smith", "Mueller", "Nakamura"]
    header = list(FIELD_NAMES)
    if fmt == "fixed":
        header = [name[:width] for name, width in zip(FIELD_NAMES, FIXED_WIDTHS)]
    return [
        header,
        ["1", amounts[0], "red", "v1", "31.12.1999", "AB-12", "1234", surnames[0]],
        ["23", amounts[1], "green", "v1", "", "xy-", "", surnames[1]],
        ["456", amounts[2], "dark blue", "v1", "01.01.2000", "Q1-zz9", "0815", surnames[2]],
    ]


_BASE_ROWS = {}


def base_rows(fmt):
    """A fresh copy of the rows of the base CID for ``fmt``."""
    if fmt not in _BASE_ROWS:
        _BASE_ROWS[fmt] = _base_rows(fmt)
    return [list(row) for row in _BASE_ROWS[fmt]]


def _base_rows(fmt):
    rows = [list(row) for row in _PROPERTY_ROWS[fmt]]
    rows.append(["", "a comment row", "", ""])
    example = table_for(fmt)[1]
    for index, name in enumerate(FIELD_NAMES):
        length = str(FIXED_WIDTHS[index]) if fmt == "fixed" else _FIELD_LENGTHS[index]
        rows.append(["F", name, example[index], _FIELD_EMPTY[index], length, FIELD_TYPES[index], _FIELD_RULES[index]])
    rows.extend(list(row) for row in CHECK_ROWS)
    return rows


_COLUMNS = {"D": ["name", "value"], "F": ["name", "example", "empty", "length", "type", "rule"],
            "C": ["description", "type", "rule"]}


def cells_of(fmt):
    """[(row index, column index)] of every cell that is made hostile."""
    result = []
    for r, row in enumerate(base_rows(fmt)):
        kind = row[0].upper()
        if kind in _COLUMNS:
            result.extend((r, c) for c in range(1, len(_COLUMNS[kind]) + 1))
    return result


def cell_label(fmt, r, c, detailed=False):
    row = base_rows(fmt)[r]
    kind = row[0].upper()
    column = _COLUMNS[kind][c - 1]
    if kind == "D":
        return "D.name" if column == "name" else "D.value:" + row[1].lower()
    label = "%s.%s" % (kind, column)
    if detailed and column in ("example", "length", "rule"):
        label += ":" + (row[5] if kind == "F" else row[2])
    return label


# -- harness safety ------------------------------------------------------------------------------------------
_WORD = re.compile(r"[A-Za-z_][A-Za-z_0-9]*")
_SAFE_CHARACTERS = set("0123456789 <>=!+-*/%()[]{}\"',.:")


# rules for the DistinctCount check written out here (so nothing generated is ever evaluated): they evaluate to a
# truth value while the CID is loaded (count 0) and raise for one particular count that only data can produce
VETTED_COUNT_RULES = (
    ["color <= 100 / (count - %d)" % n for n in (1, 2, 3, 4)] +
    ["color != 7 %% (count - %d)" % n for n in (1, 2, 3)] +
    ["color < [9, 9, 9][count]", "color < [9, 9, 9, 9][count]", "color < {0: 9, 1: 9, 2: 9}[count]",
     "color < (9, 9)[count]", "color < 9 if count < 3 else color < None", "color < 9 if count < 2 else int('x')",
     # the field name on a continuation line, and a continuation after it
     "\\\ncolor < 5", "color \\\n< 5", "color < \\\n5"])


def eval_safe(text):
    """May ``text`` stand in the rule cell of a DistinctCount check?"""
    if text in VETTED_COUNT_RULES:
        return True
    if len(text) > 80 or "**" in text or "__" in text or "<<" in text or ">>" in text:
        return False
    if "*" in text and re.search(r"[0-9]{4}", text):
        return False
    rest = _WORD.sub(lambda match: "" if match.group(0) in FIELD_NAMES else match.group(0), text)
    return all(ch in _SAFE_CHARACTERS for ch in rest)


_NESTED_QUANTIFIER = re.compile(r"\([^()]*[*+{][^()]*\)\s*[*+{?]")
_NUMBER = re.compile(r"0[xX][0-9a-fA-F]+|[0-9]+")


def _midsize_number(text):
    for match in _NUMBER.finditer(text.replace("_", "")):
        try:
            number = int(match.group(0), 0)
        except ValueError:
            try:
                number = int(match.group(0).lstrip("0") or "0")
            except ValueError:
                continue
        if 10 ** 4 <= number < 2 ** 63:
            return True
    return False


def _harmless_rule(text):
    """A RegEx / Pattern rule that cannot take long to match: short and without nested quantifiers, or without any
    quantifier or escape at all (matching is linear then)."""
    return (len(text) <= 64 and not _NESTED_QUANTIFIER.search(text)) or not set(text) & set("*+?{\\")


def value_allowed(fmt, r, c, text):
    """Harness safety filter for one cell of the base CID of ``fmt`` (see module text)."""
    row = base_rows(fmt)[r]
    kind = row[0].upper()
    column = _COLUMNS[kind][c - 1]
    if kind == "C" and column == "rule" and row[2] == "DistinctCount":
        return eval_safe(text)
    if kind == "F" and column == "length":
        return not _midsize_number(text)
    if kind == "F" and column == "rule" and row[5] == "RegEx":
        return _harmless_rule(text)
    if kind == "F" and column == "rule" and row[5] == "Pattern":
        return len(text) <= 64 or _harmless_rule(text)
    return True


def values_for(fmt, r, c):
    """The hostile values (JSON form) for one cell; for the DistinctCount rule also '<field> <value>' so that the
    evaluated part of the rule is reached."""
    row = base_rows(fmt)[r]
    result = [value for _, value in POOL if value_allowed(fmt, r, c, dec_value(value))]
    if row[0] == "C" and row[2] == "DistinctCount" and c == 3:
        for _, value in POOL:
            text = "color " + dec_value(value)
            if eval_safe(text) and text not in result:
                result.append(text)
        result.extend(text for text in ["color", "surname < 5", "color < 5 < 9", "color == (1, 2)", "color - 1"] +
                      VETTED_COUNT_RULES if text not in result)
    return result


def _guard_rows(fmt, rows):
    """Last line of defence before cutplace sees the rows of a CID case (also for replayed, hand-edited cases)."""
    base = base_rows(fmt)
    if len(rows) != len(base):
        raise HarnessError("CID case changes the number of rows")
    for r, (row, original) in enumerate(zip(rows, base)):
        if original[0] == "C" or row[0].strip().lower() == "c":
            could_be_distinct_count = any("distinctcount" in cell.lower() for cell in row[2:])
            if could_be_distinct_count:
                for index, cell in enumerate(row[2:], 2):
                    if "distinctcount" not in cell.lower() and not eval_safe(cell):
                        raise HarnessError("harness safety: %r next to a DistinctCount check (row %d)" % (cell[:60], r))
        if original[0] != "C" and row[0] != original[0]:
            raise HarnessError("CID case changes a row marker")
        if original[0] == "F":
            if _midsize_number(row[4]):
                raise HarnessError("harness safety: length %r (row %d)" % (row[4][:60], r))
            if row[5].strip().split(".")[-1] in ("RegEx", "Pattern") or original[5] in ("RegEx", "Pattern"):
                if not _harmless_rule(row[6]):
                    raise HarnessError("harness safety: rule %r (row %d)" % (row[6][:60], r))


# -- rendering data ---------------------------------------------------------------------------------------------
def delimited_text(table, raw_cell=None):
    """Text for the delimited base CID (item delimiter ';', quote '"' doubled, LF). ``raw_cell`` = (row, column) is
    spliced without quoting."""
    lines = []
    for r, row in enumerate(table):
        cells = []
        for c, cell in enumerate(row):
            if raw_cell == (r, c) or not any(ch in cell for ch in ';"\r\n'):
                cells.append(cell)
            else:
                cells.append('"' + cell.replace('"', '""') + '"')
        lines.append(";".join(cells))
    return "\n".join(lines) + "\n"


def fixed_text(table, raw_cell=None):
    lines = []
    for r, row in enumerate(table):
        cells = []
        for c, (cell, width) in enumerate(zip(row, FIXED_WIDTHS)):
            cells.append(cell if raw_cell == (r, c) else cell[:width].ljust(width))
        lines.append("".join(cells))
    return "\n".join(lines) + "\n"


def _write_bytes(path, data):
    with open(path, "wb") as f:
        f.write(data)
    return path


def write_spreadsheet(fmt, path, table):
    """Raises ValueError when the table cannot be stored."""
    if fmt == "ods":
        enc_ods.write(path, [[["(sheet 1)"]], table])
    else:
        for row in table:
            for cell in row:
                if any(ord(ch) < 0x20 and ch not in "\t\n" for ch in cell) or len(cell) > 32767:
                    raise ValueError("cell cannot be stored in xlsx")
        enc_xlsx.write_text_table(path, table, sheet=1)


class Env(object):
    """Per-process scratch folder below the root the parent created (and removes)."""

    def __init__(self, root):
        self.folder = os.path.join(root, "p%d" % os.getpid())
        os.makedirs(self.folder, exist_ok=True)
        self.valid = {}
        self.counter = 0
        for fmt in FORMATS:
            table = table_for(fmt)
            if fmt == "delimited":
                path = _write_bytes(self.path("valid.csv"), delimited_text(table).encode("utf-8"))
            elif fmt == "fixed":
                path = _write_bytes(self.path("valid.txt"), fixed_text(table).encode("utf-8"))
            else:
                path = self.path("valid.ods" if fmt == "ods" else "valid.xlsx")
                write_spreadsheet(fmt, path, table)
            self.valid[fmt] = path
        self.cid_paths = {}
        for fmt in FORMATS:
            self.cid_paths[fmt] = self.write_cid("base-%s.csv" % fmt, base_rows(fmt))
        self.fixtures = {}

    def path(self, name):
        return os.path.join(self.folder, name)

    def write_cid(self, name, rows):
        path = self.path(name)
        # half a surrogate pair in a cell goes into the file as the three bytes a lenient encoder makes of it
        with open(path, "w", encoding="utf-8", errors="surrogatepass", newline="") as f:
            csv.writer(f, lineterminator="\n").writerows(rows)
        return path

    def container_bytes(self, source):
        if source not in self.fixtures:
            if source.startswith("gen:"):
                path = self.valid[{"gen:ods": "ods", "gen:xlsx": "excel"}[source]]
            else:
                if os.path.basename(source) != source:
                    raise HarnessError("container source must be a plain file name: %r" % source)
                path = os.path.join(FIXTURE_FOLDER, source)
            with open(path, "rb") as f:
                self.fixtures[source] = f.read()
        return self.fixtures[source]


FIXTURE_FOLDER = os.path.join(repo.REPO, "tests", "data")
_ROOT = [None]
_ENVS = {}


def env():
    if _ROOT[0] is None:
        raise HarnessError("scratch root not set")
    key = (os.getpid(), _ROOT[0])
    if key not in _ENVS:
        _ENVS[key] = Env(_ROOT[0])
    return _ENVS[key]


@contextlib.contextmanager
def scratch_root():
    previous = _ROOT[0]
    # tens of thousands of small files are written: prefer the memory file system when there is one
    shm = "/dev/shm"
    root = tempfile.mkdtemp(prefix="c10-", dir=shm if os.path.isdir(shm) and os.access(shm, os.W_OK | os.X_OK) else None)
    _ROOT[0] = root
    try:
        yield root
    finally:
        _ROOT[0] = previous
        shutil.rmtree(root, ignore_errors=True)


# -- observing -------------------------------------------------------------------------------------------------------
class _Timeout(BaseException):
    pass


_ARMED = [False]


def _on_alarm(signum, frame):
    if _ARMED[0]:
        raise _Timeout()


def _arm():
    """Start the per-case limit of processor time (not wall time: a busy machine must not change outcomes). The
    timer repeats, so a _Timeout swallowed somewhere (for example inside a
    garbage collector callback) is raised again shortly afterwards."""
    signal.signal(signal.SIGPROF, _on_alarm)
    _ARMED[0] = True
    signal.setitimer(signal.ITIMER_PROF, TIME_LIMIT_S, 0.2)


def _disarm():
    while True:
        try:
            _ARMED[0] = False
            signal.setitimer(signal.ITIMER_PROF, 0)
            return
        except _Timeout:
            continue


@contextlib.contextmanager
def _quiet():
    """xlrd reports to the stdout it saw at import time: keep file descriptor 1 quiet while cutplace runs."""
    sys.stdout.flush()
    sys.__stdout__.flush()
    saved = os.dup(1)
    null = os.open(os.devnull, os.O_WRONLY)
    try:
        os.dup2(null, 1)
        yield
    finally:
        try:
            sys.stdout.flush()
            sys.__stdout__.flush()
        finally:
            os.dup2(saved, 1)
            os.close(saved)
            os.close(null)


_PACKAGE = os.path.dirname(os.path.abspath(cutplace.__file__)) + os.sep


def innermost_frame(error):
    found = "(outside cutplace)"
    tb = error.__traceback__
    while tb is not None:
        code = tb.tb_frame.f_code
        filename = os.path.abspath(code.co_filename)
        if filename.startswith(_PACKAGE):
            found = "%s:%s" % (os.path.basename(filename), getattr(code, "co_qualname", code.co_name))
        tb = tb.tb_next
    return found


class _Capture(logging.Handler):
    def __init__(self):
        super().__init__(level=logging.DEBUG)
        self.errors = []

    def emit(self, record):
        if record.exc_info and record.exc_info[1] is not None:
            self.errors.append(record.exc_info[1])


_CAPTURE = _Capture()
logging.getLogger("cutplace").addHandler(_CAPTURE)


class Observation(object):
    """What one case showed: stage outcomes and discrepancies (stage, exception type, frame, message)."""

    def __init__(self):
        self.outcomes = []  # (stage, outcome name)
        self.problems = []  # (stage, type name, frame, message)
        self.seen = set()
        self.reached_cutplace_error = False
        self.timeout = False
        self.render_failed = False

    def accept(self, stage, error):
        self.reached_cutplace_error = True
        self.outcomes.append((stage, type(error).__name__))
        try:
            str(error)
        except Exception:
            self.render_failed = True

    def problem(self, stage, error):
        name = type(error).__name__
        frame = innermost_frame(error)
        self.outcomes.append((stage, "!" + name))
        if (name, frame) not in self.seen:
            self.seen.add((name, frame))
            text = "%s: %s" % (name, error)
            self.problems.append((stage, name, frame, text[:300]))

    def stage(self, stage, permitted, function):
        """Run one stage; returns (True, result) or (False, error)."""
        try:
            result = function()
        except permitted as error:
            self.accept(stage, error)
            return False, error
        except Exception as error:
            self.problem(stage, error)
            return False, error
        self.outcomes.append((stage, "ok"))
        return True, result


def load_cid(rows):
    cid = interface.Cid()
    cid.read("c10-cid", [list(row) for row in rows])
    return cid


def cid_summary(cid):
    """Only used to classify a case as 'loaded, but means something else'; rendering a CID as text is not part of the
    property, so a CID that cannot be rendered just counts as different."""
    try:
        return (str(cid.data_format), [(str(f), f.example) for f in cid.field_formats],
                [(name, str(cid.check_map[name])) for name in cid.check_names])
    except Exception as error:
        return ("cannot be rendered", type(error).__name__)


_BASE_SUMMARIES = {}


def base_summary(fmt):
    if fmt not in _BASE_SUMMARIES:
        _BASE_SUMMARIES[fmt] = cid_summary(load_cid(base_rows(fmt)))
    return _BASE_SUMMARIES[fmt]


def _write_rows(obs, cid, table):
    """Write ``table`` with a validating writer; rows the writer does not validate (header rows) are only given to
    a fixed-width writer when they fit the declared widths (FixedRowWriter documents an assertion for others)."""
    data_format = cid.data_format
    widths = None
    if data_format.format == "fixed":
        widths = [field_format.length.lower_limit for field_format in cid.field_formats]
    writer = cutplace.Writer(cid, io.StringIO())
    try:
        for index, row in enumerate(table):
            if widths is not None and index < data_format.header:
                if len(row) != len(widths) or any(len(cell) > width for cell, width in zip(row, widths)):
                    obs.outcomes.append(("write", "unfit-header-row-skipped"))
                    continue
            try:
                writer.write_row(list(row))
            except errors.DataError as error:
                obs.accept("write-row", error)
    finally:
        writer.close()


def data_stages(obs, fmt, cid, path, text=None, table=None, allowed=None):
    """Write ``table`` (delimited, fixed) with the freshly loaded ``cid`` - first, because a writer need not reset the
    checks a reader has used - then read ``path`` / ``text`` under it.  ``allowed``: with valid data under a hostile CID
    a problem of the CID may also surface while the data are processed (a count expression that cannot be evaluated for
    the count the data produce), so the caller allows InterfaceError there; with hostile data only data errors."""
    allowed = allowed or errors.DataError
    if fmt in ("delimited", "fixed") and table is not None:
        obs.stage("write", allowed, lambda: _write_rows(obs, cid, table))
    obs.stage("read", allowed, lambda: list(cutplace.rows(cid, path)))
    ok, outputs = obs.stage("read", allowed, lambda: list(cutplace.rows(cid, path, on_error="yield")))
    if ok:
        rejected = sum(1 for output in outputs if isinstance(output, Exception))
        if rejected:
            obs.reached_cutplace_error = True
        obs.outcomes.append(("rows", "rejected-rows" if rejected else "all-rows-accepted"))
        for output in outputs:
            if isinstance(output, Exception) and not isinstance(output, errors.DataError):
                obs.problem("read", output)
    if text is not None:
        obs.stage("read", allowed,
                  lambda: list(cutplace.rows(cid, io.StringIO(text, newline=""), on_error="yield")))
    obs.stage("validate", allowed, lambda: cutplace.validate(cid, path))


def main_stage(obs, cid_path, data_path):
    del _CAPTURE.errors[:]
    try:
        code = applications.main(["cutplace", cid_path, data_path])
    except SystemExit as error:
        code = "exit-%s" % (error.code,)
    except Exception as error:
        obs.problem("main", error)
        return
    obs.outcomes.append(("main", "exit%s" % (code,)))
    if code in (1, 3):
        obs.reached_cutplace_error = True
    if code == 4:
        if _CAPTURE.errors:
            obs.problem("main", _CAPTURE.errors[-1])
        elif ("?", "?") not in obs.seen:
            obs.seen.add(("?", "?"))
            obs.problems.append(("main", "?", "?", "main returned 4 without logging an exception"))
    del _CAPTURE.errors[:]


_SAMPLE_COUNTER = [0]


def _take_sample():
    _SAMPLE_COUNTER[0] += 1
    return _SAMPLE_COUNTER[0] % 211 == 1


def _observe(function):
    obs = Observation()
    with _quiet():
        try:
            try:
                _arm()
                function(obs)
            finally:
                _disarm()
        except _Timeout:
            _disarm()
            obs.timeout = True
    return obs


# -- CID cases ----------------------------------------------------------------------------------------------------------
def _cid_rows_for(fmt, subs):
    rows = base_rows(fmt)
    cells = cells_of(fmt)
    for sub_ in subs:
        r, c = sub_["row"], sub_["col"]
        if (r, c) not in cells:
            raise HarnessError("no such CID cell: %r" % (sub_,))
        text = dec_value(sub_["value"])
        if not value_allowed(fmt, r, c, text):
            raise HarnessError("harness safety: value %r is not permitted in %s" % (text[:60], cell_label(fmt, r, c)))
        rows[r][c] = text
    _guard_rows(fmt, rows)
    return rows


def observe_cid(fmt, subs):
    rows = _cid_rows_for(fmt, subs)
    state = {"loaded": False, "changed": False}

    def run(obs):
        ok, cid = obs.stage("cid-load", errors.InterfaceError, lambda: load_cid(rows))
        scratch = env()
        if ok:
            state["loaded"] = True
            state["changed"] = cid_summary(cid) != base_summary(fmt)
            text = None
            if fmt == "delimited":
                text = delimited_text(table_for(fmt))
            elif fmt == "fixed":
                text = fixed_text(table_for(fmt))
            data_stages(obs, fmt, cid, scratch.valid[fmt], text, table_for(fmt),
                        allowed=(errors.DataError, errors.InterfaceError))
        main_stage(obs, scratch.write_cid("case-cid.csv", rows), scratch.valid[fmt])

    return _observe(run), state


def _outcome_classes(prefix, obs):
    return ["%s|%s|%s" % (prefix, stage, outcome) for stage, outcome in sorted(set(obs.outcomes))]


def _report(sub, obs, case, label, what):
    for stage, name, frame, text in obs.problems:
        sub.fail("C10|%s|%s|%s|%s" % (stage, name, frame, label), case,
                 "%s: stage %s let %s escape (innermost cutplace frame %s)" % (what, stage, text, frame))


def check_cid_case(sub, case):
    fmt = case["format"]
    subs = case["subs"]
    obs, state = observe_cid(fmt, subs)
    labels = [cell_label(fmt, s["row"], s["col"]) for s in subs]
    label = labels[0]
    if len(subs) > 1:
        label = "+".join(sorted(labels))
        if obs.problems:
            # attribute to a single cell when that cell alone shows the same problem (exception type and frame)
            for single, single_label in zip(subs, labels):
                single_obs, _ = observe_cid(fmt, [single])
                if set(p[1:3] for p in obs.problems) <= set(p[1:3] for p in single_obs.problems):
                    label = single_label
                    break
    part = "cid-%d" % len(subs)
    classes = ["%s|%s|%s" % (part, fmt, "loaded" if state["loaded"] else "refused")]
    if obs.timeout:
        classes.append("timeout|" + part)
    if obs.render_failed:
        classes.append("render-failed|" + part)
    for s in subs:
        detailed = cell_label(fmt, s["row"], s["col"], detailed=True)
        outcome = "refused" if not state["loaded"] else ("loaded-changed" if state["changed"] else "loaded-same")
        if obs.problems and obs.problems[0][0] == "cid-load":
            outcome = "internal-failure"
        classes.append("%s|cell|%s|%s" % (part, detailed, outcome))
    classes.extend(_outcome_classes(part + "|" + fmt, obs))
    what = "%s CID with %s" % (fmt, ", ".join(
        "%s := %r" % (cell_label(fmt, s["row"], s["col"], True), dec_value(s["value"])[:40]) for s in subs))
    _report(sub, obs, case, label, what)
    nontrivial = obs.reached_cutplace_error or (state["loaded"] and state["changed"])
    sample = None
    if _take_sample():
        sample = {"case": case, "cells": labels, "outcomes": sorted(set(obs.outcomes))}
    sub.case(("cid", fmt, subs), nontrivial, classes, sample=sample, evals=max(1, len(obs.outcomes)))


# -- data cases -----------------------------------------------------------------------------------------------------------
DATA_VARIANTS = {"delimited": ("quoted", "raw"), "fixed": ("fit", "raw"), "excel": ("cell",), "ods": ("cell",)}


def check_data_case(sub, case):
    fmt = case["format"]
    r, c, variant = case["row"], case["col"], case["variant"]
    text_value = dec_value(case["value"]) if "serial" not in case else "(number)"
    if "serial" in case and (fmt != "excel" or not isinstance(case["serial"], (int, float))
                             or case.get("numfmt") not in SERIAL_FORMATS):
        raise HarnessError("malformed data case %r" % (case,))
    table = table_for(fmt)
    if not (0 <= r < len(table) and 0 <= c < len(FIELD_NAMES)) or variant not in DATA_VARIANTS[fmt]:
        raise HarnessError("malformed data case %r" % (case,))
    table[r][c] = text_value
    part = "data|%s|%s" % (fmt, FIELD_TYPES[c])
    scratch = env()
    path = None
    text = None
    try:
        if fmt == "delimited":
            text = delimited_text(table, (r, c) if variant == "raw" else None)
            path = _write_bytes(scratch.path("case-data.csv"), text.encode("utf-8"))
        elif fmt == "fixed":
            text = fixed_text(table, (r, c) if variant == "raw" else None)
            path = _write_bytes(scratch.path("case-data.txt"), text.encode("utf-8"))
        elif "serial" in case:
            path = scratch.path("case-data.xlsx")
            _write_xlsx_with_serial(path, table, r, c, case["serial"], case["numfmt"])
        else:
            path = scratch.path("case-data.ods" if fmt == "ods" else "case-data.xlsx")
            write_spreadsheet(fmt, path, table)
    except ValueError:
        sub.case(None, False, ["data|%s|unrepresentable" % fmt], evals=0)
        return
    rows = base_rows(fmt)

    def run(obs):
        ok, cid = obs.stage("cid-load", errors.InterfaceError, lambda: load_cid(rows))
        if not ok:
            raise HarnessError("base CID %s does not load: %r" % (fmt, cid))
        data_stages(obs, fmt, cid, path, text, table if variant in ("quoted", "fit") else None)
        main_stage(obs, scratch.cid_paths[fmt], path)

    obs = _observe(run)
    classes = ["data|%s|%s|%s" % (fmt, variant, "header-row" if r == 0 else "data-row")]
    if obs.timeout:
        classes.append("timeout|data")
    if obs.render_failed:
        classes.append("render-failed|data")
    classes.extend(_outcome_classes(part, obs))
    _report(sub, obs, case, "data:" + FIELD_TYPES[c],
            "%s data, row %d, %s cell (%s) := %r" % (fmt, r, FIELD_TYPES[c], variant, text_value[:40]))
    sample = None
    if _take_sample():
        sample = {"case": case, "outcomes": sorted(set(obs.outcomes))}
    sub.case(("data", fmt, r, c, variant, case["value"]), obs.reached_cutplace_error, classes, sample=sample,
             evals=max(1, len(obs.outcomes)))


# -- undecodable bytes -----------------------------------------------------------------------------------------------------
BYTE_ENCODINGS = [("utf-8", "unicode"), ("ascii", "ascii"), ("cp1252", "ascii"), ("utf-16", "ascii")]
FAULT_BYTES = [0xFF, 0x81, 0xC3]


def _encoded_data(fmt, encoding, kind):
    table = table_for(fmt, kind)
    text = delimited_text(table) if fmt == "delimited" else fixed_text(table)
    return text.encode(encoding)


def _rows_with_encoding(fmt, encoding):
    rows = base_rows(fmt)
    for row in rows:
        if row[0] == "D" and row[1] == "Encoding":
            row[2] = encoding
    return rows


def check_bytes_case(sub, case):
    fmt, encoding, kind, op, offset = case["format"], case["encoding"], case["table"], case["op"], case["offset"]
    if fmt not in ("delimited", "fixed") or [encoding, kind] not in [list(e) for e in BYTE_ENCODINGS]:
        raise HarnessError("malformed bytes case %r" % (case,))
    data = _encoded_data(fmt, encoding, kind)
    offset = max(0, min(offset, len(data)))
    if op == "insert":
        data = data[:offset] + bytes([case["byte"]]) + data[offset:]
    elif op == "replace":
        data = data[:offset] + bytes([case["byte"]]) + data[offset + 1:]
    elif op == "truncate":
        data = data[:offset]
    else:
        raise HarnessError("malformed bytes case %r" % (case,))
    try:
        data.decode(encoding)
        decodable = True
    except UnicodeError:
        decodable = False
    scratch = env()
    path = _write_bytes(scratch.path("case-bytes.%s" % ("csv" if fmt == "delimited" else "txt")), data)
    rows = _rows_with_encoding(fmt, encoding)
    name = "bytes-cid-%s-%s.csv" % (fmt, encoding)
    cid_path = scratch.path(name)
    if not os.path.exists(cid_path):
        scratch.write_cid(name, rows)

    def run(obs):
        ok, cid = obs.stage("cid-load", errors.InterfaceError, lambda: load_cid(rows))
        if not ok:
            raise HarnessError("CID %s with encoding %s does not load: %r" % (fmt, encoding, cid))
        data_stages(obs, fmt, cid, path)
        main_stage(obs, cid_path, path)

    obs = _observe(run)
    part = "bytes|%s|%s" % (fmt, encoding)
    classes = ["%s|%s|%s" % (part, op, "decodable" if decodable else "undecodable")]
    if obs.timeout:
        classes.append("timeout|bytes")
    classes.extend(_outcome_classes(part, obs))
    _report(sub, obs, case, "bytes:" + fmt,
            "%s data in %s, %s at offset %d (%s)" % (fmt, encoding, op, offset,
                                                      "decodable" if decodable else "undecodable"))
    sample = None
    if _take_sample():
        sample = {"case": case, "decodable": decodable, "outcomes": sorted(set(obs.outcomes))}
    sub.case(("bytes", sorted(case.items())), obs.reached_cutplace_error, classes, sample=sample,
             evals=max(1, len(obs.outcomes)))


# -- containers ------------------------------------------------------------------------------------------------------------
def container_sources():
    result = ["gen:ods", "gen:xlsx"]
    if os.path.isdir(FIXTURE_FOLDER):
        for name in sorted(os.listdir(FIXTURE_FOLDER)):
            if name.lower().endswith((".xls", ".xlsx", ".ods")):
                result.append(name)
    return result


def _container_kind(source):
    if source == "gen:ods" or source.lower().endswith(".ods"):
        return "ods"
    return "xls" if source.lower().endswith(".xls") else "xlsx"


# attributes ODF defines for the elements of a sheet that the reader has no need to understand (merged cells, typed
# values, styles, formulas, protection): whatever text they hold, the file is read or refused as data.  The repeat
# counts are left to C15 (a huge count makes any reader build a huge table).
ODS_ELEMENTS = ("table:table", "table:table-row", "table:table-cell", "text:p")
ODS_ATTRIBUTES = ("table:number-columns-spanned", "table:number-rows-spanned", "table:number-matrix-columns-spanned",
                  "table:number-matrix-rows-spanned", "office:value-type", "office:value", "office:date-value",
                  "office:boolean-value", "office:time-value", "table:style-name", "table:formula", "table:protected",
                  "table:content-validation-name", "xml:id")
ODS_ATTRIBUTE_VALUES = ("", "x3", "3.0", "-1", "0", "2", "99999999999999999999", "NaN", "\u00b2", "true")


def _ods_with_attribute(data, element, occurrence, attribute, value):
    """The ODS archive ``data`` with ``attribute="value"`` added to the ``occurrence``-th ``element`` of content.xml."""
    import zipfile
    from xml.sax.saxutils import quoteattr

    with zipfile.ZipFile(io.BytesIO(data)) as archive:
        members = [(info, archive.read(info.filename)) for info in archive.infolist()]
    out = io.BytesIO()
    changed = False
    with zipfile.ZipFile(out, "w") as archive:
        for info, content in members:
            if info.filename == "content.xml":
                text = content.decode("utf-8")
                starts = [m.start() for m in re.finditer("<%s(?=[ />])" % re.escape(element), text)]
                if occurrence < len(starts):
                    at = starts[occurrence] + 1 + len(element)
                    text = text[:at] + " %s=%s" % (attribute, quoteattr(value)) + text[at:]
                    changed = True
                content = text.encode("utf-8")
            archive.writestr(info, content)
    return out.getvalue() if changed else None


# elements that ODF lets nest in themselves: text:span inside a paragraph, table:table-row-group around rows
ODS_NESTINGS = (("text:p", "text:span"), ("table:table-row", "table:table-row-group"))
ODS_NESTING_DEPTHS = (1, 40, 3000)


def _ods_with_nesting(data, element, occurrence, wrapper, depth):
    """The ODS archive ``data`` with the content of the ``occurrence``-th text:p wrapped ``depth`` times in
    text:span, or the ``occurrence``-th table:table-row wrapped ``depth`` times in table:table-row-group."""
    import zipfile

    if wrapper not in ("text:span", "table:table-row-group") or not 0 <= depth <= 5000:
        raise HarnessError("malformed nesting %r x %r" % (wrapper, depth))
    with zipfile.ZipFile(io.BytesIO(data)) as archive:
        members = [(info, archive.read(info.filename)) for info in archive.infolist()]
    out = io.BytesIO()
    changed = False
    with zipfile.ZipFile(out, "w") as archive:
        for info, content in members:
            if info.filename == "content.xml":
                text = content.decode("utf-8")
                found = list(re.finditer("<%s(?: [^>]*[^/])?>(.*?)</%s>" % (re.escape(element), re.escape(element)),
                                         text, re.DOTALL))
                if occurrence < len(found):
                    match = found[occurrence]
                    start, end = (match.start(1), match.end(1)) if element == "text:p" else (match.start(), match.end())
                    text = (text[:start] + ("<%s>" % wrapper) * depth + text[start:end] + ("</%s>" % wrapper) * depth +
                            text[end:])
                    changed = True
                content = text.encode("utf-8")
            archive.writestr(info, content)
    return out.getvalue() if changed else None


def nesting_cases():
    for element, wrapper in ODS_NESTINGS:
        for occurrence in (0, 1, 5):
            for depth in ODS_NESTING_DEPTHS:
                yield {"kind": "container", "source": "gen:ods", "fault": "nesting", "element": element,
                       "offset": occurrence, "attr": wrapper, "value": depth, "bit": 0}


# the repeat counts themselves, with values that are no counts (huge ones are left out: they make any reader build
# a huge table)
ODS_REPEAT_ATTRIBUTES = (("table:table-cell", "table:number-columns-repeated"),
                         ("table:table-row", "table:number-rows-repeated"))
ODS_REPEAT_VALUES = ("", "x3", "3.0", "-1", "0", "NaN", "\u00b2", "\u2461", "1\u00b2", "\u00bd", "+2", " 2", "2 ", "0x2",
                     "1_0", "1e1")


def attribute_cases():
    for element in ODS_ELEMENTS:
        for occurrence in (0, 1, 5):
            for attribute in ODS_ATTRIBUTES:
                for value in ODS_ATTRIBUTE_VALUES:
                    yield {"kind": "container", "source": "gen:ods", "fault": "attribute", "element": element,
                           "offset": occurrence, "attr": attribute, "value": value, "bit": 0}
    for element, attribute in ODS_REPEAT_ATTRIBUTES:
        for occurrence in (0, 1, 5):
            for value in ODS_REPEAT_VALUES:
                yield {"kind": "container", "source": "gen:ods", "fault": "attribute", "element": element,
                       "offset": occurrence, "attr": attribute, "value": value, "bit": 0}


def check_container_case(sub, case):
    source, fault, offset = case["source"], case["fault"], case["offset"]
    scratch = env()
    data = scratch.container_bytes(source)
    kind = _container_kind(source)
    if not data:
        raise HarnessError("empty container %r" % source)
    if fault == "truncate":
        offset = max(0, min(offset, len(data)))
        data = data[:offset]
    elif fault == "bitflip":
        offset = offset % len(data)
        data = data[:offset] + bytes([data[offset] ^ (1 << (case["bit"] % 8))]) + data[offset + 1:]
    elif fault == "attribute":
        data = _ods_with_attribute(data, case["element"], offset, case["attr"], case["value"])
        if data is None:
            return
    elif fault == "nesting":
        data = _ods_with_nesting(data, case["element"], offset, case["attr"], case["value"])
        if data is None:
            return
    else:
        raise HarnessError("malformed container case %r" % (case,))
    fmt = "ods" if kind == "ods" else "excel"
    path = _write_bytes(scratch.path("case-container." + kind), data)
    rows = base_rows(fmt)
    if not source.startswith("gen:"):
        for row in rows:
            if row[0] == "D" and row[1] == "Sheet":
                row[2] = "1"
    name = "container-cid-%s-%s.csv" % (fmt, "gen" if source.startswith("gen:") else "fixture")
    cid_path = scratch.path(name)
    if not os.path.exists(cid_path):
        scratch.write_cid(name, rows)

    def run(obs):
        ok, cid = obs.stage("cid-load", errors.InterfaceError, lambda: load_cid(rows))
        if not ok:
            raise HarnessError("base CID %s does not load: %r" % (fmt, cid))
        data_stages(obs, fmt, cid, path)
        main_stage(obs, cid_path, path)

    obs = _observe(run)
    part = "container|%s|%s" % (kind, fault)
    classes = ["container|source|%s|%s" % (source, fault)]
    if obs.timeout:
        classes.append("timeout|container")
    classes.extend(_outcome_classes(part, obs))
    _report(sub, obs, case, "container:" + kind, "%s, %s at offset %d%s" % (
        source, fault, offset, "" if fault not in ("attribute", "nesting") else " (%s %s=%r)" % (case["element"], case["attr"], case["value"])))
    sample = None
    if _take_sample():
        sample = {"case": case, "outcomes": sorted(set(obs.outcomes))}
    sub.case(("container", sorted(case.items())), obs.reached_cutplace_error, classes, sample=sample,
             evals=max(1, len(obs.outcomes)))


# -- enumeration ---------------------------------------------------------------------------------------------------------------
def single_cell_cases():
    for fmt in FORMATS:
        for r, c in cells_of(fmt):
            for value in values_for(fmt, r, c):
                yield {"kind": "cid", "format": fmt, "subs": [{"row": r, "col": c, "value": enc_value(value)}]}


def cleared_example_cases():
    """Rule and length cells once more with the example of the row removed (otherwise nearly every hostile rule is
    refused only because the example no longer fits, and the data stages never see it)."""
    for fmt in FORMATS:
        rows = base_rows(fmt)
        for r, c in cells_of(fmt):
            if rows[r][0] == "F" and _COLUMNS["F"][c - 1] in ("length", "rule") and rows[r][2] != "":
                for value in values_for(fmt, r, c):
                    yield {"kind": "cid", "format": fmt, "subs": [{"row": r, "col": 2, "value": ""},
                                                                   {"row": r, "col": c, "value": enc_value(value)}]}


# numbers in cells that are formatted as dates or times: days the date system of the workbook cannot name (the first
# sixty of 1900, negative ones, ones beyond the year 9999), fractions, zero
SERIAL_FORMATS = ("yyyy-mm-dd", "hh:mm:ss", "dd.mm.yyyy hh:mm", "m/d/yy")
SERIAL_VALUES = (0, 0.5, 1, 30, 59, 60, 61, 60.5, -1, -0.25, 2958465, 2958466, 1e10, 0.999999999, 36526.000001)


def _write_xlsx_with_serial(path, table, r, c, value, num_format):
    import xlsxwriter

    workbook = xlsxwriter.Workbook(path, {"strings_to_numbers": False, "strings_to_formulas": False,
                                          "strings_to_urls": False, "in_memory": True})
    try:
        worksheet = workbook.add_worksheet()
        styled = workbook.add_format({"num_format": num_format})
        for y, row in enumerate(table):
            for x, cell in enumerate(row):
                if (y, x) == (r, c):
                    worksheet.write_number(y, x, value, styled)
                else:
                    worksheet.write_string(y, x, cell)
    finally:
        workbook.close()


def serial_cases():
    table = table_for("excel")
    for r in (0, 1, len(table) - 1):
        for c in (0, 4):
            for value in SERIAL_VALUES:
                for num_format in SERIAL_FORMATS:
                    yield {"kind": "data", "format": "excel", "row": r, "col": c, "value": "", "variant": "cell",
                           "serial": value, "numfmt": num_format}


def data_cell_cases():
    for fmt in FORMATS:
        table = table_for(fmt)
        for r in range(len(table)):
            for c in range(len(FIELD_NAMES)):
                for _, value in POOL:
                    for variant in DATA_VARIANTS[fmt]:
                        yield {"kind": "data", "format": fmt, "row": r, "col": c, "value": enc_value(value),
                               "variant": variant}


def bytes_cases():
    for fmt in ("delimited", "fixed"):
        for encoding, kind in BYTE_ENCODINGS:
            size = len(_encoded_data(fmt, encoding, kind))
            for offset in range(size + 1):
                for byte in FAULT_BYTES:
                    yield {"kind": "bytes", "format": fmt, "encoding": encoding, "table": kind, "op": "insert",
                           "offset": offset, "byte": byte}
                    if offset < size:
                        yield {"kind": "bytes", "format": fmt, "encoding": encoding, "table": kind, "op": "replace",
                               "offset": offset, "byte": byte}
                if offset < size:
                    yield {"kind": "bytes", "format": fmt, "encoding": encoding, "table": kind, "op": "truncate",
                           "offset": offset, "byte": 0}


def truncation_cases(sizes):
    for source in sorted(sizes):
        size = sizes[source]
        stride = 1 if size < 2048 else 64
        for offset in range(0, size, stride):
            yield {"kind": "container", "source": source, "fault": "truncate", "offset": offset, "bit": 0}


def directory_bitflip_cases(sizes):
    """Every bit of the region where one flipped bit derails the whole container: the last 128 bytes of the zip based
    files (central directory and its end record), the first 80 bytes of .xls files (compound document header)."""
    for source in sorted(sizes):
        size = sizes[source]
        if _container_kind(source) == "xls":
            offsets = range(0, min(80, size))
        else:
            offsets = range(max(0, size - 128), size)
        for offset in offsets:
            for bit in range(8):
                yield {"kind": "container", "source": source, "fault": "bitflip", "offset": offset, "bit": bit}


CHECKERS = {"cid": check_cid_case, "data": check_data_case, "bytes": check_bytes_case,
            "container": check_container_case}


def check_case(sub, case):
    CHECKERS[case["kind"]](sub, case)


# -- Hypothesis parts ---------------------------------------------------------------------------------------------------------------
def pair_cases():
    from hypothesis import strategies as st

    tables = {}
    for fmt in FORMATS:
        cells = cells_of(fmt)
        tables[fmt] = (cells, [values_for(fmt, r, c) for r, c in cells])

    @st.composite
    def build(draw):
        fmt = draw(st.sampled_from(FORMATS))
        cells, values = tables[fmt]
        first = draw(st.integers(0, len(cells) - 1))
        second = draw(st.integers(0, len(cells) - 2))
        if second >= first:
            second += 1
        subs = []
        for index in sorted((first, second)):
            pick = draw(st.integers(0, len(values[index]) - 1))
            subs.append({"row": cells[index][0], "col": cells[index][1], "value": enc_value(values[index][pick])})
        return {"kind": "cid", "format": fmt, "subs": subs}

    return build()


def bitflip_cases(sizes):
    from hypothesis import strategies as st

    sources = sorted(sizes)

    @st.composite
    def build(draw):
        source = draw(st.sampled_from(sources))
        offset = draw(st.integers(0, sizes[source] - 1))
        bit = draw(st.integers(0, 7))
        return {"kind": "container", "source": source, "fault": "bitflip", "offset": offset, "bit": bit}

    return build()


# -- self test of the harness material ------------------------------------------------------------------------------------------
def selftest():
    for fmt in FORMATS:
        obs, state = observe_cid(fmt, [])
        bad = [(stage, outcome) for stage, outcome in obs.outcomes
               if outcome not in ("ok", "exit0", "all-rows-accepted")]
        if bad or obs.problems or obs.timeout or not state["loaded"] or state["changed"]:
            raise HarnessError("base material for %s is not accepted by cutplace: %r %r" % (fmt, bad, obs.problems))
    for _, value in POOL:
        text = dec_value(value)
        if "distinctcount" in text.lower():
            raise HarnessError("pool must not contain DistinctCount")
    for fmt in FORMATS:
        for r, c in cells_of(fmt):
            row = base_rows(fmt)[r]
            if row[0] == "C" and c == 3 and row[2] == "DistinctCount":
                for value in values_for(fmt, r, c):
                    if not eval_safe(dec_value(value)):
                        raise HarnessError("unsafe DistinctCount rule %r" % (value,))


def _fuzz_cid_worker(args):
    """One atheris campaign (thorough tier) on CIDs with fuzzed cells; the exception-type oracle is in the target."""
    import shutil
    import subprocess
    import tempfile

    from vlib.runner import VERIF

    seed, runs = args
    sub = Sub("atheris-cid")
    scratch = tempfile.mkdtemp(prefix="c10-fuzz-")
    try:
        out = os.path.join(scratch, "out.json")
        corpus = os.path.join(scratch, "corpus")
        os.makedirs(corpus)
        env = dict(os.environ, PYTHONPATH=VERIF + os.pathsep + os.path.join(VERIF, ".deps"))
        proc = subprocess.run([sys.executable, "-m", "vlib.fuzz_cid", out, "-runs=%d" % runs, "-seed=%d" % seed,
                               "-artifact_prefix=" + scratch + os.sep, "-max_len=128", corpus],
                              cwd=VERIF, env=env, stdout=subprocess.PIPE, stderr=subprocess.STDOUT, text=True)
        if "No module named 'atheris'" in proc.stdout:
            sub.notes["atheris"] = "not available: fuzz campaign skipped"
            return sub
        stats = {}
        if os.path.exists(out + ".stats"):
            with open(out + ".stats") as f:
                stats = json.load(f)
        sub.bulk(stats.get("cases", 0), 0, {"atheris-cid:executions": stats.get("executions", 0),
                                          "atheris-cid:loaded": stats.get("loaded", 0),
                                          "atheris-cid:refused": stats.get("refused", 0)})
        if os.path.exists(out):
            with open(out) as f:
                found = json.load(f)
            sub.fail(found["signature"], found["case"], found["message"])
    finally:
        shutil.rmtree(scratch, ignore_errors=True)
    return sub


def _replay_fuzz_cid(sub, case):
    from cutplace import errors as cutplace_errors
    from cutplace import interface as cutplace_interface

    sub.evaluations += 1
    try:
        cid = cutplace_interface.Cid()
        cid.read("fuzzed", [list(r) for r in case["fuzz_cid_rows"]])
    except cutplace_errors.InterfaceError:
        pass
    except Exception as error:
        import traceback

        frames = [f for f in traceback.extract_tb(error.__traceback__) if "/cutplace/" in f.filename]
        where = "%s:%s" % (frames[-1].filename.rsplit("/", 1)[-1], frames[-1].name) if frames else "?"
        sub.fail("C10|fuzz-cid-load|%s|%s" % (type(error).__name__, where), case,
                 "Cid.read raised %s: %s" % (type(error).__name__, error))


def run(ctx):
    if not ctx.quick:
        ctx.par(_fuzz_cid_worker, [(ctx.seed * 100 + i + 1, 250000) for i in range(12)])
    with scratch_root():
        selftest()
        sizes = {}
        scratch = env()
        for source in container_sources():
            sizes[source] = len(scratch.container_bytes(source))
        cases = (list(single_cell_cases()) + list(cleared_example_cases()) + list(data_cell_cases())
                 + list(bytes_cases()) + list(truncation_cases(sizes)) + list(directory_bitflip_cases(sizes))
                 + list(attribute_cases()) + list(nesting_cases()) + list(serial_cases()))
        shards = max(1, ctx.workers * 4)

        def shard(index):
            sub = Sub("enumeration")
            for case in cases[index::shards]:
                check_case(sub, case)
            return sub

        ctx.par(shard, list(range(shards)))
        ctx.hyp("cid-pairs", pair_cases, check_cid_case, ctx.n(1600, 400000))
        ctx.hyp("bit-flips", lambda: bitflip_cases(sizes), check_container_case, ctx.n(1600, 60000))


def replay(sub, case):
    if "fuzz_cid_rows" in case:
        _replay_fuzz_cid(sub, case)
        return
    with scratch_root():
        check_case(sub, case)
