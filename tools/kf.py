#!/usr/bin/env python3
"""tools/kf.py <property> <status> <commit|-> <signature> <what>  -- append an entry to known_findings.json"""
import json
import sys

prop, status, commit, signature, what = sys.argv[1:6]
path = "known_findings.json"
data = json.load(open(path, encoding="utf-8"))
entry = {"property": prop, "status": status, "signature": signature, "what": what}
if status == "fixed":
    entry["commit"] = commit
    entry["line"] = "fixed: property=%s %s %s" % (prop, commit, what)
else:
    entry["line"] = "open: property=%s %s" % (prop, what)
data["entries"].append(entry)
json.dump(data, open(path, "w", encoding="utf-8"), indent=1, ensure_ascii=False)
open(path, "a").write("\n")
print(entry["line"])
