#!/bin/sh
# Offline setup: make sure hypothesis imports under /venv; unpack atheris beside /verif (optional, thorough tier).
cd "$(dirname "$0")/.." || exit 1
PY=/venv/bin/python
"$PY" -c "import hypothesis" 2>/dev/null || \
    "$PY" -m pip install --quiet --no-index --find-links /opt/veriftools/wheels hypothesis || exit 1
if [ ! -d .deps/atheris ]; then
    "$PY" -m pip install --quiet --no-index --find-links /opt/veriftools/wheels --target .deps atheris >/dev/null 2>&1 \
        || echo "note: atheris not installed (thorough fuzz parts are skipped)"
fi
"$PY" -c "import hypothesis, xlrd, xlsxwriter; print('setup ok: hypothesis', hypothesis.__version__)"
