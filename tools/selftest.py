#!/usr/bin/env python3
"""Sensitivity self-test: run the quick check of the mapped properties against every mutant and seeded change.

usage: tools/selftest.py [--jobs N] [--only substring] [--baseline]
Sources: /verif/mutants/*.diff (index.json maps to properties) and /verif/seeded/*/patch.diff (meta.json).
Each mutant is applied to its own scratch worktree of /repo's HEAD (outside /repo and /verif, removed afterwards)
and the checks run with VERIF_REPO pointing at it; evidence goes to a temporary directory.
Writes /verif/mutants/RESULTS.json and prints a table. A development tool, not a registered check.
"""
import concurrent.futures
import json
import os
import re
import shutil
import subprocess
import sys
import tempfile
import time

VERIF = os.path.dirname(os.path.dirname(os.path.abspath(__file__)))


def run(cmd, **kw):
    return subprocess.run(cmd, stdout=subprocess.PIPE, stderr=subprocess.STDOUT, text=True, **kw)


def collect(only):
    jobs = []
    index = json.load(open(os.path.join(VERIF, "mutants", "index.json")))
    for name, info in sorted(index.items()):
        jobs.append({"name": "mutant:" + name, "patch": os.path.join(VERIF, "mutants", name + ".diff"),
                     "properties": info["properties"], "description": info["description"]})
    seeded = os.path.join(VERIF, "seeded")
    for entry in sorted(os.listdir(seeded)) if os.path.isdir(seeded) else []:
        meta_path = os.path.join(seeded, entry, "meta.json")
        if os.path.exists(meta_path):
            meta = json.load(open(meta_path))
            jobs.append({"name": "seeded:" + entry, "patch": os.path.join(seeded, entry, "patch.diff"),
                         "properties": meta.get("checks") or [meta["property"]],
                         "description": meta.get("needs", "")})
    if only:
        jobs = [j for j in jobs if only in j["name"]]
    return jobs


def one(job, with_baseline, workers):
    scratch = tempfile.mkdtemp(prefix="selftest-")
    tree = os.path.join(scratch, "tree")
    result = {"name": job["name"], "description": job["description"], "checks": {}}
    try:
        run(["git", "-C", "/repo", "worktree", "add", "-q", "--detach", tree, "HEAD"])
        applied = run(["git", "-C", tree, "apply", job["patch"]])
        if applied.returncode != 0:
            result["error"] = "patch does not apply: " + applied.stdout[-200:]
            return result
        if with_baseline:
            base = run(["python3", os.path.join(VERIF, "tools", "baseline.py"), tree])
            result["baseline_ok"] = base.returncode == 0
        env = dict(os.environ, VERIF_REPO=tree, VERIF_EVIDENCE_DIR=os.path.join(scratch, "evidence"),
                   VERIF_REPLAY_DIR=os.path.join(scratch, "replays"), VERIF_WORKERS=str(workers))
        for check_id in job["properties"]:
            t0 = time.time()
            proc = run([os.path.join(VERIF, "check"), check_id, "--tier", "quick"], env=env, cwd=VERIF)
            signatures = sorted(set(re.findall(r"DISCREPANCY signature=(\S+)", proc.stdout)))
            result["checks"][check_id] = {"exit": proc.returncode, "signatures": signatures[:5],
                                          "wall_s": round(time.time() - t0, 1)}
        if HARVEST and os.path.isdir(os.path.join(scratch, "replays")):
            # keep the shrunk failing inputs: tools/harvest_regress.py turns them into the replay tier
            kept = os.path.join(HARVEST, job["name"].replace(":", "-"))
            shutil.copytree(os.path.join(scratch, "replays"), kept, dirs_exist_ok=True)
    finally:
        run(["git", "-C", "/repo", "worktree", "remove", "--force", tree])
        shutil.rmtree(scratch, ignore_errors=True)
    return result


HARVEST = None


def main():
    global HARVEST
    args = sys.argv[1:]
    if "--harvest" in args:
        HARVEST = os.path.abspath(args[args.index("--harvest") + 1])
        os.makedirs(HARVEST, exist_ok=True)
    jobs_n = int(args[args.index("--jobs") + 1]) if "--jobs" in args else 4
    only = args[args.index("--only") + 1] if "--only" in args else None
    with_baseline = "--baseline" in args
    jobs = collect(only)
    workers = max(2, 16 // jobs_n)
    results = []
    with concurrent.futures.ThreadPoolExecutor(jobs_n) as pool:
        for result in pool.map(lambda j: one(j, with_baseline, workers), jobs):
            results.append(result)
            verdicts = ", ".join("%s:%s(%ss)" % (c, {0: "MISSED", 1: "caught", 2: "HARNESS-ERROR"}.get(v["exit"], v["exit"]),
                                                 v["wall_s"]) for c, v in result["checks"].items())
            print("%-44s %s %s" % (result["name"], verdicts, result.get("error", "")), flush=True)
    run(["git", "-C", "/repo", "worktree", "prune"])
    if not only:
        json.dump(results, open(os.path.join(VERIF, "mutants", "RESULTS.json"), "w"), indent=1)
    caught = sum(1 for r in results if any(v["exit"] == 1 for v in r["checks"].values()))
    print("%d of %d changes caught by at least one mapped check" % (caught, len(results)))


if __name__ == "__main__":
    main()
