#!/usr/bin/env python3
"""Run the repository's baseline test command and compare with /root/.vp/BASELINE.json.

usage: tools/baseline.py [repo_dir]   -> exit 0 iff every stable_pass test passes
"""
import json
import os
import subprocess
import sys
import tempfile
import xml.etree.ElementTree as ET

repo = sys.argv[1] if len(sys.argv) > 1 else "/repo"
baseline = json.load(open("/root/.vp/BASELINE.json"))
fd, junit = tempfile.mkstemp(suffix=".xml")
os.close(fd)
cmd = ["/venv/bin/python", "-m", "pytest", "-ra", "-q", "-p", "no:cacheprovider", "--timeout=900",
       "--continue-on-collection-errors", "--junitxml=" + junit]
env = dict(os.environ)
env.pop("CUTPLACE_VERIF", None)
env["PYTHONPATH"] = repo
proc = subprocess.run(cmd, cwd=repo, env=env, stdout=subprocess.PIPE, stderr=subprocess.STDOUT, text=True)
passed = set()
for case in ET.parse(junit).getroot().iter("testcase"):
    if not any(child.tag in ("failure", "error", "skipped") for child in case):
        passed.add("%s::%s" % (case.get("classname"), case.get("name")))
os.unlink(junit)
missing = [t for t in baseline["stable_pass"] if t not in passed]
print("passed=%d stable_pass=%d missing=%d" % (len(passed), len(baseline["stable_pass"]), len(missing)))
for t in missing:
    print("  NOT PASSING:", t)
print(proc.stdout.strip().splitlines()[-1])
sys.exit(1 if missing else 0)
