#!/usr/bin/env python3
"""Generate /verif/mutants/<name>.diff from the table below (each is one small source change to /repo's HEAD).

The mutants are the sensitivity self-test of DESIGN.md section 7: deliberate breaks taken from the 'Catches' lists.
Run tools/selftest.py afterwards to obtain the kill matrix.
"""
import json
import os
import shutil
import subprocess
import sys
import tempfile

VERIF = os.path.dirname(os.path.dirname(os.path.abspath(__file__)))

# name: (property ids expected to detect, file, old, new, description)
MUTANTS = {
    "c01_upper_exclusive": (["C01"], "cutplace/ranges.py",
                            "                elif (value >= lower) and (value <= upper):\n                    is_valid = True\n                item_index += 1\n            if not is_valid:\n                try:\n                    value_text = \"%r\" % (value,)",
                            "                elif (value >= lower) and (value < upper):\n                    is_valid = True\n                item_index += 1\n            if not is_valid:\n                try:\n                    value_text = \"%r\" % (value,)",
                            "Range.validate: upper limit of a closed item exclusive"),
    "c01_lower_limit_first_item": (["C01"], "cutplace/ranges.py",
                                   "                elif (self._lower_limit is not None) and (lower_item < self._lower_limit):\n                    self._lower_limit = lower_item\n\n                if upper_item is None:\n                    self._upper_limit = None\n                elif (self._upper_limit is not None) and (upper_item > self._upper_limit):\n                    self._upper_limit = upper_item\n\n    @property\n    def description",
                                   "                elif (self._lower_limit is not None) and (lower_item > self._lower_limit):\n                    self._lower_limit = lower_item\n\n                if upper_item is None:\n                    self._upper_limit = None\n                elif (self._upper_limit is not None) and (upper_item > self._upper_limit):\n                    self._upper_limit = upper_item\n\n    @property\n    def description",
                                   "Range: overall lower limit takes the maximum instead of the minimum"),
    "c01_negative_hex": (["C01"], "cutplace/ranges.py",
                         "                            if after_hyphen:\n                                value_as_int *= -1\n                                after_hyphen = False\n",
                         "                            if after_hyphen:\n                                if not next_value.lower().startswith(\"0x\"):\n                                    value_as_int *= -1\n                                after_hyphen = False\n",
                         "Range: minus sign lost for hex limits"),
    "c01_colon_dropped": (["C01"], "cutplace/ranges.py",
                          "                    elif next_value in (ELLIPSIS, \":\"):\n                        ellipsis_found = True\n                    else:\n                        raise errors.InterfaceError(\n                            \"range must be specified using integer numbers, text, \"",
                          "                    elif next_value in (ELLIPSIS,):\n                        ellipsis_found = True\n                    else:\n                        raise errors.InterfaceError(\n                            \"range must be specified using integer numbers, text, \"",
                          "Range: ':' no longer accepted as separator"),
    "c02_yy_before_yyyy": (["C02"], "cutplace/fields.py",
                           "        (\"YYYY\", \"%Y\"),\n        (\"YY\", \"%y\"),\n",
                           "        (\"YY\", \"%y\"),\n        (\"YYYY\", \"%Y\"),\n",
                           "DateTime: YY handled before YYYY"),
    "c02_regex_search": (["C02"], "cutplace/fields.py",
                         "        if not self.regex.match(value):\n            raise errors.FieldValueError(\n                \"value %s must match regular expression",
                         "        if not self.regex.search(value):\n            raise errors.FieldValueError(\n                \"value %s must match regular expression",
                         "RegEx: search instead of match"),
    "c02_pattern_case": (["C02"], "cutplace/fields.py",
                         "        self.regex = re.compile(self.pattern, re.IGNORECASE | re.MULTILINE)",
                         "        self.regex = re.compile(self.pattern, re.MULTILINE)",
                         "Pattern: IGNORECASE dropped"),
    "c02_choice_caseless": (["C02"], "cutplace/fields.py",
                            "        if value not in self.choices:",
                            "        if value.lower() not in [choice.lower() for choice in self.choices]:",
                            "Choice compared case-insensitively"),
    "c02_default_int_range": (["C02"], "cutplace/ranges.py",
                              "MAX_INTEGER = 2**31 - 1\nMIN_INTEGER = -(2**31)\n\nDEFAULT_INTEGER_RANGE_TEXT",
                              "MAX_INTEGER = 2**31\nMIN_INTEGER = -(2**31)\n\nDEFAULT_INTEGER_RANGE_TEXT",
                              "default Integer range upper limit off by one"),
    "c02_length_range_negative": (["C02"], "cutplace/ranges.py",
                                  "                    range_rule_text += (\"-\" + (\"9\" * (upper_length - 1)) + \"...\" + (\"9\" * upper_length)) + \", \"",
                                  "                    range_rule_text += (\"-\" + (\"9\" * upper_length) + \"...\" + (\"9\" * upper_length)) + \", \"",
                                  "length-derived Integer range: negative branch one digit too wide"),
    "c02_thousands_after_decimal": (["C02"], "cutplace/fields.py",
                                    "                if found_decimal_separator:\n                    raise errors.FieldValueError(\n                        \"decimal field must contain thousands separator",
                                    "                if False and found_decimal_separator:\n                    raise errors.FieldValueError(\n                        \"decimal field must contain thousands separator",
                                    "Decimal: thousands separator accepted after the decimal separator"),
    "c03_chars_first_only": (["C03"], "cutplace/fields.py",
                             "            for character_column, character in enumerate(value, 1):",
                             "            for character_column, character in enumerate(value[:1], 1):",
                             "allowed characters checked for the first character only"),
    "c03_length_skipped_if_empty_allowed": (["C03"], "cutplace/fields.py",
                                            "        if self.length is not None and not (self.is_allowed_to_be_empty and (value == \"\")):",
                                            "        if self.length is not None and not self.is_allowed_to_be_empty:",
                                            "length guard skipped for every value of a field that may be empty"),
    "c03_empty_before_strip": (["C03", "C02"], "cutplace/fields.py",
                               "        self.validate_empty(possibly_stripped_value)\n",
                               "        self.validate_empty(value)\n",
                               "fixed: emptiness tested before stripping (the original defect)"),
    "c03_fixed_length_ge": (["C03"], "cutplace/fields.py",
                            "                    if value_length > fixed_length:",
                            "                    if value_length > fixed_length + 1:",
                            "fixed: one character too many tolerated"),
    "c04_location_not_advanced_in_header": (["C04"], "cutplace/validio.py",
                                            "                    assert self.on_error == \"continue\"\n            self._location.advance_line()",
                                            "                    assert self.on_error == \"continue\"\n            if is_after_header_row:\n                self._location.advance_line()",
                                            "row number does not count header rows"),
    "c04_cell_index": (["C04"], "cutplace/validio.py",
                       "            self.location.set_cell(field_index)\n            field_to_validate",
                       "            self.location.set_cell(min(field_index, 1))\n            field_to_validate",
                       "error column stuck at the second column"),
    "c04_error_location_shared": (["C04"], "cutplace/errors.py",
                                  "        self._message = prefix + \": \" + self._message\n        self._location = copy.copy(new_location)",
                                  "        self._message = prefix + \": \" + self._message\n        self._location = new_location",
                                  "field error keeps a reference to the reader's moving location"),
    "c05_first_location_overwritten": (["C05"], "cutplace/checks.py",
                                       "        see_also_location = self._row_key_to_location_map.get(row_key)\n        if see_also_location is not None:",
                                       "        see_also_location = self._row_key_to_location_map.get(row_key)\n        self._row_key_to_location_map[row_key] = copy.copy(location)\n        if see_also_location is not None:",
                                       "IsUnique: a duplicate replaces the location of the first occurrence"),
    "c05_location_by_reference": (["C05"], "cutplace/checks.py",
                                  "            self._row_key_to_location_map[row_key] = copy.copy(location)",
                                  "            self._row_key_to_location_map[row_key] = location",
                                  "IsUnique: first-occurrence location stored by reference"),
    "c05_count_only_accepted_first": (["C05"], "cutplace/checks.py",
                                      "        value = field_name_to_value_map[self._field_name_to_count]\n        try:",
                                      "        value = field_name_to_value_map[self._field_name_to_count].lower()\n        try:",
                                      "DistinctCount folds case of the counted values"),
    "c06_rejected_counter": (["C06"], "cutplace/validio.py",
                             "                self.rejected_rows_count += 1\n                if self.on_error == \"yield\":\n                    yield error",
                             "                if self.on_error == \"yield\":\n                    self.rejected_rows_count += 1\n                    yield error",
                             "rejected counter only maintained in yield mode"),
    "c06_end_checks_while_failing": (["C06"], "cutplace/validio.py",
                                     "        if exc_type is not None:\n            self._skip_checks_at_end = True\n",
                                     "",
                                     "end-of-data checks run while an error propagates (the original defect)"),
    "c07_header_ge": (["C07", "C04"], "cutplace/validio.py",
                      "                is_after_header_row = row_count > header_row_count",
                      "                is_after_header_row = row_count >= header_row_count",
                      "the last header row is treated as data"),
    "c07_limit_lt": (["C07"], "cutplace/validio.py",
                     "(row_count <= self._validate_until)",
                     "(row_count < self._validate_until)",
                     "validation limit exclusive"),
    "c08_no_reset": (["C08"], "cutplace/validio.py",
                     "        for check in self._cid.check_map.values():\n            check.reset()\n",
                     "",
                     "checks never reset between runs (the original defect)"),
    "c12_doublequote_inverted": (["C12"], "cutplace/rowio.py",
                                 "    if delimited_data_format.escape_character == delimited_data_format.quote_character:\n        doublequote = True",
                                 "    if delimited_data_format.escape_character != delimited_data_format.quote_character:\n        doublequote = True",
                                 "doublequote / escapechar decision inverted"),
    "c13_unread_lost": (["C13"], "cutplace/rowio.py",
                        "                        unread_character_after_line_delimiter[0] = anticipated_linefeed\n",
                        "                        pass\n",
                        "fixed 'any': character after a lone CR dropped"),
    "c13_short_last_record": (["C13"], "cutplace/rowio.py",
                              "                elif item_length == field_length:\n                    row.append(item)",
                              "                elif item_length == field_length or (item_length > 0 and field_index == len(field_name_and_lengths) - 1 and fixed_file.read(1) == \"\"):\n                    row.append(item)",
                              "fixed: short last field at end of input accepted"),
    "c14_pad_left": (["C14"], "cutplace/validio.py",
                     "                field_value += \" \" * (fixed_field_length - field_value_length)",
                     "                field_value = \" \" * (fixed_field_length - field_value_length) + field_value",
                     "fixed writer pads on the left"),
    "c14_write_before_validate": (["C14"], "cutplace/validio.py",
                                  "        if self.location.line >= self._header:\n            self.validate_row(actual_row_to_write)\n        self._delegated_writer.write_row(actual_row_to_write)",
                                  "        is_data_row = self.location.line >= self._header\n        self._delegated_writer.write_row(actual_row_to_write)\n        if is_data_row:\n            self.validate_row(actual_row_to_write)",
                                  "writer emits the row before validating it"),
    "c15_sheet_off_by_one": (["C15"], "cutplace/rowio.py",
                             "    table_element = table_elements[sheet - 1]",
                             "    table_element = table_elements[max(sheet - 2, 0)]",
                             "ODS: sheet index off by one for sheet >= 2"),
    "c15_column_repeat_ignored": (["C15"], "cutplace/rowio.py",
                                  "            row.extend([cell_value] * repeated_count)",
                                  "            row.extend([cell_value] * (repeated_count if cell_value else 1))",
                                  "ODS: repeat count of non-empty cells ignored"),
    "c16_first_sheet": (["C16"], "cutplace/rowio.py",
                        "            sheet = book.sheet_by_index(sheet - 1)",
                        "            sheet = book.sheet_by_index(0)",
                        "Excel: always the first sheet (the original defect)"),
    "c16_time_branch": (["C16"], "cutplace/rowio.py",
                        "        if cell_tuple[:3] == (0, 0, 0):",
                        "        if cell_tuple[3:] == (0, 0, 0):",
                        "Excel: date/time branches confused"),
    "c19_keyword_case": (["C19"], "cutplace/sql.py",
                         "        return word.lower() in self.keywords",
                         "        return word in self.keywords",
                         "SQL: keyword test case-sensitive"),
    "c19_smallint_threshold": (["C19"], "cutplace/sql.py",
                               "MAX_SMALLINT = 2**15 - 1",
                               "MAX_SMALLINT = 2**15",
                               "SQL: smallint threshold off by one"),
    "c09_duplicate_field": (["C09"], "cutplace/interface.py",
                            "        if field_name in self._field_name_to_format_map:\n            # TODO",
                            "        if False and field_name in self._field_name_to_format_map:\n            # TODO",
                            "duplicate field names no longer refused by the loader"),
    "c09_keyword": (["C09"], "cutplace/fields.py",
                    "    if keyword.iskeyword(field_name):",
                    "    if False and keyword.iskeyword(field_name):",
                    "Python keywords accepted as field names"),
    "c09_comment_rows_not_counted": (["C09"], "cutplace/interface.py",
                                     "                    raise errors.InterfaceError(\n                        'CID row type is \"%s\" but must be empty or one of: C, D, or F' % row_type, self._location\n                    )\n            self._location.advance_line()",
                                     "                    raise errors.InterfaceError(\n                        'CID row type is \"%s\" but must be empty or one of: C, D, or F' % row_type, self._location\n                    )\n                if row_type != \"\":\n                    self._location.advance_line()\n            else:\n                self._location.advance_line()",
                                     "comment rows do not advance the row number of later errors"),
    "c10_narrow_except": (["C10", "C09"], "cutplace/_tools.py",
                          "    except (tokenize.TokenError, SyntaxError) as error:\n        raise errors.InterfaceError(\"cannot split",
                          "    except SyntaxError as error:\n        raise errors.InterfaceError(\"cannot split",
                          "tokenizer errors escape again from ranges and rules"),
    "c10_assert_on_input": (["C10", "C11"], "cutplace/data.py",
                            "        try:\n            result = int(value)\n        except ValueError:",
                            "        assert value.strip().lstrip(\"+-\").isdigit()\n        try:\n            result = int(value)\n        except ValueError:",
                            "an assertion on user input in Header / Sheet parsing"),
    "c17_xlsx_suffix": (["C17"], "cutplace/rowio.py",
                        "        elif suffix in (\"xls\", \"xlsx\"):",
                        "        elif suffix in (\"xls\",):",
                        "a CID stored as .xlsx is read as delimited text"),
    "c18_flag_per_file": (["C18"], "cutplace/applications.py",
                          "        _log.info('validate \"%s\"', data_path)\n",
                          "        _log.info('validate \"%s\"', data_path)\n        self.all_validations_were_ok = True\n",
                          "only the last data file decides the exit code"),
    "c18_until_zero": (["C18", "C07"], "cutplace/applications.py",
                       "            if args.validate_until == -1:",
                       "            if args.validate_until <= 0:",
                       "--until 0 means no limit"),
    "c20_checks_sorted": (["C20"], "cutplace/validio.py",
                          "        for check_name in self.cid.check_names:\n            self.cid.check_map[check_name].check_row(field_map, self.location)",
                          "        for check_name in sorted(self.cid.check_names):\n            self.cid.check_map[check_name].check_row(field_map, self.location)",
                          "row checks consulted in alphabetical instead of declaration order"),
    "c20_cleanup_skipped_on_failure": (["C20"], "cutplace/validio.py",
                                       "            finally:\n                for check in self.cid.check_map.values():\n                    check.cleanup()",
                                       "            except Exception:\n                raise\n            else:\n                for check in self.cid.check_map.values():\n                    check.cleanup()",
                                       "cleanup skipped when an end-of-data check fails"),
    "c20_length_after_strip": (["C20", "C14", "C03"], "cutplace/fields.py",
                               "        self.validate_length(value)\n        if possibly_stripped_value:",
                               "        self.validate_length(possibly_stripped_value)\n        if possibly_stripped_value:",
                               "fixed: length guard applied to the stripped value"),
    "c11_distinct_dropped": (["C11"], "cutplace/data.py",
                             "            check_distinct(KEY_ITEM_DELIMITER, KEY_QUOTE_CHARACTER)\n",
                             "",
                             "item delimiter == quote character no longer refused"),
    "c11_symbolic_tab": (["C11", "C01"], "cutplace/errors.py",
                         "\"tab\": 9, \"vt\": 11}",
                         "\"tab\": 11, \"vt\": 9}",
                         "symbolic names tab and vt swapped"),
}


def main():
    out_dir = os.path.join(VERIF, "mutants")
    os.makedirs(out_dir, exist_ok=True)
    scratch = tempfile.mkdtemp(prefix="mutants-")
    tree = os.path.join(scratch, "tree")
    index = {}
    try:
        subprocess.run(["git", "-C", "/repo", "worktree", "add", "-q", "--detach", tree, "HEAD"], check=True)
        for name, (props, path, old, new, description) in sorted(MUTANTS.items()):
            full = os.path.join(tree, path)
            text = open(full, encoding="utf-8").read()
            if text.count(old) != 1:
                print("SKIP %s: anchor found %d times" % (name, text.count(old)))
                continue
            compile(text.replace(old, new), full, "exec")  # a mutant that does not compile tests nothing
            open(full, "w", encoding="utf-8").write(text.replace(old, new))
            diff = subprocess.run(["git", "-C", tree, "diff"], stdout=subprocess.PIPE, text=True).stdout
            subprocess.run(["git", "-C", tree, "checkout", "--", "."], check=True)
            open(os.path.join(out_dir, name + ".diff"), "w", encoding="utf-8").write(diff)
            index[name] = {"properties": props, "file": path, "description": description}
        json.dump(index, open(os.path.join(out_dir, "index.json"), "w"), indent=1, sort_keys=True)
        print("%d mutants written" % len(index))
    finally:
        subprocess.run(["git", "-C", "/repo", "worktree", "remove", "--force", tree])
        shutil.rmtree(scratch, ignore_errors=True)
        subprocess.run(["git", "-C", "/repo", "worktree", "prune"])


if __name__ == "__main__":
    sys.exit(main())
