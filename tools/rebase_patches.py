#!/usr/bin/env python3
"""After a fix: commit to /repo, bring the stored changes (seeded/*/patch.diff) up to the new HEAD.

Every patch that no longer applies is applied with a three-way merge (its blobs are in /repo's object store, the patch
was cut from an earlier commit of it) in a scratch worktree; when that merges without conflict the patch is rewritten
as the diff against the current HEAD, otherwise it is reported and left alone."""
import os
import shutil
import subprocess
import tempfile

VERIF = os.path.dirname(os.path.dirname(os.path.abspath(__file__)))


def run(args, **kwargs):
    return subprocess.run(args, stdout=subprocess.PIPE, stderr=subprocess.STDOUT, universal_newlines=True, **kwargs)


def main():
    base = os.path.join(VERIF, "seeded")
    stale = []
    for entry in sorted(os.listdir(base)):
        patch = os.path.join(base, entry, "patch.diff")
        if os.path.exists(patch) and run(["git", "-C", "/repo", "apply", "--check", patch]).returncode != 0:
            stale.append((entry, patch))
    print("%d patches do not apply to the current HEAD" % len(stale))
    for entry, patch in stale:
        scratch = tempfile.mkdtemp(prefix="rebase-")
        tree = os.path.join(scratch, "tree")
        try:
            run(["git", "-C", "/repo", "worktree", "add", "-q", "--detach", tree, "HEAD"])
            merged = run(["git", "-C", tree, "apply", "--3way", patch])
            conflicts = run(["git", "-C", tree, "diff", "--name-only", "--diff-filter=U"]).stdout.strip()
            if conflicts:
                # both sides added lines at the same place (typically an import): keep both, in the order ours, theirs;
                # the caller re-verifies the result with the demonstration (tools/seedimport.py <dir> ...)
                resolved = True
                for name in conflicts.splitlines():
                    stages = {}
                    for stage in (1, 2, 3):
                        shown = run(["git", "-C", tree, "show", ":%d:%s" % (stage, name)])
                        if shown.returncode != 0:
                            resolved = False
                            break
                        stages[stage] = os.path.join(scratch, "stage%d" % stage)
                        with open(stages[stage], "w", encoding="utf-8") as f:
                            f.write(shown.stdout)
                    if not resolved:
                        break
                    union = run(["git", "merge-file", "--union", "-p", stages[2], stages[1], stages[3]])
                    if union.returncode < 0 or "<<<<<<<" in union.stdout:
                        resolved = False
                        break
                    with open(os.path.join(tree, name), "w", encoding="utf-8") as f:
                        f.write(union.stdout)
                    try:
                        compile(union.stdout, name, "exec")
                    except SyntaxError:
                        resolved = False
                        break
                if not resolved:
                    print("%s: CONFLICT, left alone: %s" % (entry, conflicts[-200:]))
                    continue
                # keeping both sides can leave the original statement in front of the changed one: only trust the merge
                # when the demonstration of the change still fails on the merged tree
                demo = next((os.path.join(base, entry, n) for n in sorted(os.listdir(os.path.join(base, entry)))
                             if n.startswith("demo") and n.endswith(".py")), None)
                if demo is None or run(["/venv/bin/python", "-W", "ignore", demo, tree]).returncode == 0:
                    print("%s: CONFLICT (kept both sides, but the demonstration no longer fails), left alone" % entry)
                    continue
                print("%s: conflict resolved by keeping both sides, demonstration still fails" % entry)
            elif merged.returncode != 0:
                print("%s: does not merge, left alone: %s" % (entry, merged.stdout[-200:]))
                continue
            diff = run(["git", "-C", tree, "diff", "HEAD"]).stdout
            if not diff.strip():
                print("%s: merges to nothing, left alone" % entry)
                continue
            with open(patch, "w", encoding="utf-8") as f:
                f.write(diff)
            print("%s: rewritten against HEAD" % entry)
        finally:
            run(["git", "-C", "/repo", "worktree", "remove", "--force", tree])
            shutil.rmtree(scratch, ignore_errors=True)
    run(["git", "-C", "/repo", "worktree", "prune"])


if __name__ == "__main__":
    main()
