#!/usr/bin/env python3
"""Write /verif/MANIFEST.json from the table below (kept in one place so it stays valid)."""
import json
import os

VERIF = os.path.dirname(os.path.dirname(os.path.abspath(__file__)))

# id -> (technique, level text, level note, design section)
CLAIMED = {
    "C01": (
        "hypothesis generated descriptions + bounded-exhaustive sweep against a reference range model",
        "Generated-input search: range descriptions are generated from item lists in every documented spelling and "
        "judged by an independent membership / limit model; the small sweep the property names is enumerated "
        "completely. Sampling cannot prove absence outside the enumerated sub-space.",
        "Trusts Python int/Decimal comparison and the harness' reference model (gen_range.member/overall_limits).",
        "5/C01",
    ),
    "C02": (
        "hypothesis generated declarations and cells + exhaustive integer-length sweep against reference semantics",
        "Field declarations are generated from per-type rule grammars in five data formats; cells are generated from "
        "the rule and by single mutations and judged by an independent three-valued reference (vlib/model_fields.py: "
        "own range, decimal-separator, calendar, glob and regex-subset semantics); the Integer length sweep is "
        "complete for its stated space. Sampling elsewhere.",
        "Trusts int(), decimal.Decimal, time.strptime, re and fnmatch of the runtime; cells the statement leaves "
        "open (lenient spellings) are neutral and never judged.",
        "5/C02",
    ),
    "C03": (
        "complete enumeration of the guard matrix + hypothesis random guards against the field reference model",
        "Every built-in type x empty flag x 10 length declarations around the cell length x 3 allowed-character "
        "settings x 4 formats x cells (empty, blanks, inside / outside length, a disallowed character at every "
        "position) is observed through FieldFormat.validated and through cutplace.rows on streams and generated "
        "ODS/XLSX files; the matrix is finite and enumerated completely, random lengths and ranges are sampled.",
        "Trusts the guard part of vlib/model_fields.verdict; blank-only cells wider than a fixed field and fixed "
        "cells padded with other white space are neutral.",
        "5/C03",
    ),
    "C04": (
        "hypothesis CIDs and tables in all four storage formats against a validation reference model",
        "Generated CIDs (1-5 mixed fields, optional IsUnique/DistinctCount, header 0-2, sheet 1-2) and tables with "
        "bad cells, short and long rows are read with on_error='yield' from streams, files, generated ODS and XLSX; "
        "each output item is compared with vlib/model_validio.predict: verdict, error class, 0-based line, first "
        "rejected column, location text and field name, see-also row, end-of-data verdict.",
        "Trusts the per-field reference model (checked by C02/C03) and the independent ODS / XLSX producers.",
        "5/C04",
    ),
    "C05": (
        "exhaustive short row sequences + hypothesis tables against a dictionary model, three error modes",
        "Every sequence of up to 4 (thorough 5) rows over a 9-symbol alphabet with duplicates at every pair of "
        "positions and interleaved rows rejected for other reasons is read under IsUnique (3 key sets) and "
        "DistinctCount (all operators and thresholds rotating) in both declaration orders and all three modes; "
        "Hypothesis adds larger CIDs and tables. Verdicts, error rows and see-also rows come from an independent "
        "dictionary model.",
        "At most one IsUnique per CID (the quantifier's domain); key cells are canonical texts.",
        "5/C05",
    ),
    "C06": (
        "hypothesis differential between the three error modes + generated container faults",
        "The same generated CID and table are read in 'yield', 'continue' and 'raise' mode on fresh CIDs and the "
        "three outputs must satisfy the relations of the statement (continue = rows of yield; raise = prefix + the "
        "same error; counters add up); faults (undecodable byte, unterminated quote, short record, truncated / "
        "corrupted / non-zip archive) injected at a generated row or offset must end every mode with "
        "DataFormatError after a prefix of the fault-free output.",
        "Relational oracle: the modes are compared with each other (that is the property); the fault-free output "
        "itself is judged by C04.",
        "5/C06",
    ),
    "C07": (
        "complete enumeration of header x limit x bad-row position x three observers (+ container fault family)",
        "Header 0-3 x tables of 1-6 rows with one bad row at every position (also inside the header) x validation "
        "limit None/0..r+1 are observed through cutplace.rows(on_error='yield'), cutplace.validate and "
        "applications.main(--until N) for delimited and fixed data (ODS / XLSX sampled); a second family places a "
        "container fault behind the validation window. The space is finite and enumerated completely.",
        "Where the statement's two sentences about the limit disagree on container faults (header > 0 together "
        "with a limit) only what both demand is judged; a fresh CID is used per run (carry-over is C08).",
        "5/C07",
    ),
    "C08": (
        "exhaustive operation sequences on one shared CID, differential against a freshly loaded CID",
        "All sequences of 1-4 operations over a 15-operation alphabet (reads clean / with duplicates / abandoned / "
        "never closed / ending in an error / in continue mode, validate with limit 0, k, none, writes with and "
        "without close) are run on one shared Cid; each operation's outcome must equal its outcome on a fresh CID. "
        "Hypothesis adds sequences of up to 30 operations.",
        "Differential oracle (stated by the property); operations run one after the other, never interleaved.",
        "5/C08",
    ),
    "C09": (
        "exhaustive defect catalogue at every applicable row of seed CIDs + hypothesis rewrites and defects",
        "A 56-entry catalogue of structural defects is applied alone at every applicable row of 10 seed CIDs "
        "(exhaustive) and of generated valid CIDs carrying meaning-preserving rewrites; each must raise "
        "InterfaceError whose text names the defective row. Generated valid CIDs (all formats, 1-6 fields of all "
        "types, 0-3 checks) undergo 1-5 composed meaning-preserving rewrites (comment / empty rows, trailing cells, "
        "case, blanks, permuted properties) and must load to identical fields, checks and data format, through "
        "Cid.read and create_cid_from_string.",
        "Defects that only show when the CID is completed are judged by exception class only; acceptance of four "
        "undocumented borderline declarations is neutral; DistinctCount rule texts come from a safe alphabet.",
        "5/C09",
    ),
    "C10": (
        "exhaustive one-cell hostile substitution + container fault enumeration + sampled pairs, exception-type oracle",
        "A pool of 79 hostile values is put into every cell of every row kind of four valid base CIDs (one per data "
        "format, all field types, both checks) and into every data cell, one cell at a time (exhaustive) and in "
        "sampled pairs; csv / fixed bytes get undecodable bytes at every offset; ODS, XLSX and the bundled XLS files "
        "are truncated at every offset and bit-flipped; the CID is loaded, data read in two modes, validated, "
        "written, and the command line run in-process. Only InterfaceError (loading) and DataError (data) may "
        "escape and main must not return 4.",
        "DistinctCount rule cells only receive texts from a safe alphabet (the check evals its rule); RegEx rules "
        "avoid nested quantifiers; cases exceeding 3 s CPU (xlrd loops on some damaged XLS) are counted, not judged.",
        "5/C10",
    ),
    "C11": (
        "complete enumeration of the property x format x value x spelling matrix against documented expectations",
        "Every data-format property is set in every format with every documented spelling of 105 code points, "
        "documented / foreign / malformed values, all consistency pairs and defaults, through DataFormat.set_property "
        "and through Cid.read; the matrix is finite and enumerated completely. Expectations come from "
        "docs/writing-an-icd.rst; undocumented-but-tolerated values are neutral.",
        "Trusts the documentation as the definition of accepted values; the runtime's codec registry for encodings.",
        "5/C11",
    ),
    "C12": (
        "enumeration of all loader-accepted delimited formats x systematic and hypothesis tables, write/read round trip",
        "All 5120 combinations of item delimiter, quote, escape, quoting and line delimiter are offered to the CID "
        "loader; every accepted one round-trips systematic tables (every atom and ordered pair of its special "
        "characters) plus Hypothesis tables through DelimitedRowWriter/delimited_rows and cutplace.Writer/rows.",
        "Trusts Python's csv module for formats whose special characters are pairwise different; tables have >= 1 "
        "column; the line delimiter actually written is not judged.",
        "5/C12",
    ),
    "C14": (
        "hypothesis write histories against a writer model, stream inspected after every call, read-back round trip",
        "Generated CIDs (delimited, fixed with every line delimiter setting, header 0-1, whole-file checks) and "
        "histories of 0-8 write_row calls mixing accepted rows, rejected cells, wrong item counts and duplicate "
        "keys; after every call the stream must hold exactly the model's rendering of the rows accepted so far, a "
        "rejection must leave it untouched, close() must raise the model's end verdict, and the output must read "
        "back accepted and equal under a fresh CID.",
        "Trusts Python's csv reader for parsing delimited output; header rows are generated well-formed because "
        "the writer does not validate them.",
        "5/C14",
    ),
    "C15": (
        "hypothesis tables through an independent ODF encoder (round trip) + enumerated container faults",
        "Tables are written by an independent encoder (vlib/enc_ods.py, no cutplace import) with each optional ODF "
        "feature switched independently (column/row runs, text:s/tab/line-break, spans, paragraphs, 7 XML encodings, "
        "1-3 sheets) and must read back as the logical table via ods_rows and cutplace.rows; truncations, cuts at tag "
        "boundaries and bad repeat counts must raise DataFormatError.",
        "Trusts zipfile/ElementTree and the encoder's own reference decoder (self-tested on every file); trailing "
        "empty cells/rows are compared modulo padding because ODF cannot represent them distinctly.",
        "5/C15",
    ),
    "C16": (
        "hypothesis workbooks written with XlsxWriter directly, rendering oracle + sheet selection + writer round trip",
        "Workbooks with 1-3 distinguishable sheets and every cell kind (strings, integers to 2^53, floats, booleans, "
        "dates, times, blanks, ragged rows; 1900/1904 date systems) are produced by an independent producer and read "
        "via excel_rows and cutplace.rows for every sheet number; rendering is judged by a value-based oracle; string "
        "tables round-trip through XlsxRowWriter; bundled .xls/.xlsx fixtures are cross-read with xlrd.",
        "Trusts XlsxWriter and xlrd (self-tested per run); notation of numbers >= 1e16 and of fractions is only "
        "required to denote the same double with no more digits than repr.",
        "5/C16",
    ),
    "C17": (
        "hypothesis 3x3 storage differential (CID as csv/ods/xlsx x data as delimited/ods/excel) plus model",
        "One generated CID and table are stored in every combination of CID storage and data storage; the loaded "
        "CIDs must be equivalent and the nine validation runs must agree row by row (verdict, error class, column, "
        "returned values) and with the validation reference model.",
        "Rows are rectangular with a non-empty last cell (what all three storages can represent); cells whose "
        "reference verdict is format specific by documentation are neutral.",
        "5/C17",
    ),
    "C18": (
        "complete enumeration of CID state x file lists x --until, oracle derived from the programmatic API",
        "12 CID/data storage variants x all 259 lists of 0-3 data files over {accepted, rejected by a field, rejected "
        "by IsUnique, sharing keys with a sibling, missing, directory} in every order x --until {absent,-1,0,k} plus "
        "unusable argument lists are run in-process through applications.main; the expected exit code set comes "
        "from cutplace.validate on a fresh CID per file; permutations must agree; a sample runs as subprocess.",
        "Exit code {1,3} is accepted when a rejected and an unreadable file occur together. One genuine defect is a "
        "recorded known finding (missing ODS file: exit 1 instead of 3).",
        "5/C18",
    ),
    "C19": (
        "exhaustive boundary-pair sweep + hypothesis CIDs, generated DDL parsed back against a capacity table",
        "All 1770 ordered pairs of integer limits from the boundary set x 4 dialects are generated and the column type "
        "is checked against an independent capacity table; Hypothesis CIDs cover keyword names in all letter cases, "
        "every field type, empty flags, text lengths and decimal rules; the statement is parsed back by an own parser.",
        "Trusts the dialect's own keyword list as the definition of a keyword and the harness' capacity table "
        "(T-SQL, DB2, Oracle; ANSI integer sizes are implementation defined and not judged).",
        "5/C19",
    ),
    "C13": (
        "bounded-exhaustive enumeration + hypothesis single-edit mutation against a language-membership oracle",
        "Every string over {a,b,CR,LF} up to length 7 (quick) / 9 (thorough) x 39 width lists x 5 delimiter "
        "settings is read and judged by a validity predicate (exact widths, lossless reconstruction) and by an "
        "independent recogniser of the well-formed language; longer generated files with one edit at every offset "
        "are read from streams and by path in several encodings.",
        "Trusts io.StringIO/io.open with newline='' and the harness' recogniser (props/c13.py wellformed_records, "
        "reproduces).",
        "5/C13",
    ),
    "C20": (
        "hypothesis histories with recording plugin classes against a protocol predictor (+ plugin-folder subprocess)",
        "Recording subclasses of AbstractFieldFormat / AbstractCheck log every call; generated CIDs (1-4 fields, 0-3 "
        "recording checks mixed with built-ins, delimited and fixed, header 0-2, allowed characters) and 1-3 "
        "consecutive runs on one Cid (reader in three modes, Reader.rows()+close(), Writer, validation limit, second "
        "close) are compared call by call with a predictor written from the statement; class resolution through "
        "import_plugins(folder) is exercised in subprocesses.",
        "Where the statement admits several call sequences (remaining end-of-data verdicts after a failing one, "
        "when exactly verdicts run) every admissible sequence is accepted.",
        "5/C20",
    ),
}

NOT_APPLICABLE = {}


def main():
    props = [json.loads(line) for line in open(os.path.join(VERIF, "properties.jsonl"), encoding="utf-8")]
    ids = [p["id"] for p in props]
    checks = []
    for pid in ids:
        if pid not in CLAIMED:
            continue
        technique, text, note, ref = CLAIMED[pid]
        checks.append({
            "property_id": pid,
            "quick_cmd": "./check %s --tier quick" % pid,
            "thorough_cmd": "./check %s --tier thorough" % pid,
            "evidence_file": "evidence/%s.json" % pid,
            "replay_cmd_template": "./check %s --replay {path}" % pid,
            "engine": "pbt-runner",
            "level_claimed": {"category": "exploration", "text": text, "design_ref": "DESIGN.md section " + ref},
            "level_note": note,
            "technique": technique,
        })
    not_applicable = []
    for pid in ids:
        if pid in CLAIMED:
            continue
        reason = NOT_APPLICABLE.get(pid, "check not built yet in this round; designed in DESIGN.md section 5 and "
                                         "planned, not claimed until its check is registered")
        not_applicable.append({"property_id": pid, "reason": reason})
    manifest = {
        "version": 1,
        "setup_cmd": "sh tools/setup.sh",
        "hooks": {
            "guard": "CUTPLACE_VERIF",
            "enable": "none needed: cutplace is pure Python and imported from /repo's working tree by vlib/repo.py; "
                      "no instrumentation commits exist",
            "baseline_off_cmd": "cd /repo && /venv/bin/python -m pytest -ra -q -p no:cacheprovider --timeout=900 "
                                "--continue-on-collection-errors",
            "source_commits": [],
            "add_only": True,
        },
        "engines": [
            {
                "name": "pbt-runner",
                "path": "vlib/runner.py",
                "serves_properties": sorted(CLAIMED),
                "kind_free_text": "Hypothesis-driven generated search (sharded over forked workers, per-signature "
                                  "shrinking), bounded-exhaustive enumeration and fault injection against explicit "
                                  "reference models; replay of saved JSON cases bypassing Hypothesis",
            }
        ],
        "checks": checks,
        "notes": "All checks import cutplace from /repo's working tree (VERIF_REPO overrides for self-tests). "
                 "known_findings.json lists genuine defects (open = recorded, fixed = repaired by a fix: commit).",
        "not_applicable": not_applicable,
    }
    with open(os.path.join(VERIF, "MANIFEST.json"), "w", encoding="utf-8") as f:
        json.dump(manifest, f, indent=1)
        f.write("\n")
    print("claimed:", sorted(CLAIMED), "not claimed:", [n["property_id"] for n in not_applicable])


if __name__ == "__main__":
    main()
