#!/bin/sh
# tools/tryseed.sh <seeded-name> <property> [VERIF_SEED]  -- run one quick check against a stored change in a scratch worktree
HERE="$(cd "$(dirname "$0")/.." && pwd)"
NAME="$1"; PROP="$2"; SEED="${3:-1}"
TREE="/tmp/try-$NAME-$$"
git -C /repo worktree add -q --detach "$TREE" HEAD || exit 2
git -C "$TREE" apply "$HERE/seeded/$NAME/patch.diff" || { git -C /repo worktree remove --force "$TREE"; exit 2; }
VERIF_REPO="$TREE" VERIF_SEED="$SEED" "$HERE/check" "$PROP" --tier quick 2>&1 | grep -v "^WARNING" | cut -c1-400 | tail -${TAIL:-4}
git -C /repo worktree remove --force "$TREE"
git -C /repo worktree prune
