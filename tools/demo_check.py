#!/usr/bin/env python3
"""tools/demo_check.py [name ...]  -- every stored change still applies to /repo's HEAD and its demonstration still
fails with it (exit != 0) and passes without (exit 0).  Prints one line per change that does not."""
import os
import subprocess
import sys
import tempfile
from concurrent.futures import ThreadPoolExecutor

VERIF = os.path.dirname(os.path.dirname(os.path.abspath(__file__)))


def run(args, **kwargs):
    return subprocess.run(args, stdout=subprocess.PIPE, stderr=subprocess.STDOUT, universal_newlines=True, **kwargs)


def demo_of(folder):
    for name in sorted(os.listdir(folder)):
        if name.startswith("demo") and name.endswith(".py"):
            return os.path.join(folder, name)
    return None


def check(name):
    folder = os.path.join(VERIF, "seeded", name)
    demo = demo_of(folder)
    patch = os.path.join(folder, "patch.diff")
    if demo is None or not os.path.exists(patch):
        return "%s: no demo or patch" % name
    scratch = tempfile.mkdtemp(prefix="democheck-")
    tree = os.path.join(scratch, "tree")
    try:
        run(["git", "-C", "/repo", "worktree", "add", "-q", "--detach", tree, "HEAD"])
        before = run(["/venv/bin/python", "-W", "ignore", demo, tree], timeout=600).returncode
        if run(["git", "-C", tree, "apply", patch]).returncode != 0:
            return "%s: patch does not apply" % name
        after = run(["/venv/bin/python", "-W", "ignore", demo, tree], timeout=600).returncode
        if before != 0 or after == 0:
            return "%s: demo exits %d without and %d with the change" % (name, before, after)
        return None
    except subprocess.TimeoutExpired:
        return "%s: demo timed out" % name
    finally:
        run(["git", "-C", "/repo", "worktree", "remove", "--force", tree])
        run(["rm", "-rf", scratch])


def main():
    names = sys.argv[1:] or sorted(os.listdir(os.path.join(VERIF, "seeded")))
    with ThreadPoolExecutor(6) as pool:
        for result in pool.map(check, names):
            if result:
                print(result, flush=True)
    run(["git", "-C", "/repo", "worktree", "prune"])
    print("done: %d changes" % len(names))


if __name__ == "__main__":
    main()
