#!/usr/bin/env python3
"""Regenerate the generated tables of DESIGN.md (between <!-- BEGIN:x --> / <!-- END:x --> markers) from
known_findings.json, mutants/RESULTS.json + mutants/index.json and seeded/*/meta.json."""
import json
import os
import re

VERIF = os.path.dirname(os.path.dirname(os.path.abspath(__file__)))


def findings_table():
    data = json.load(open(os.path.join(VERIF, "known_findings.json"), encoding="utf-8"))
    lines = ["| Property | Status | Commit | Signature (root-cause bucket) | What failed |", "|---|---|---|---|---|"]
    for e in data["entries"]:
        lines.append("| %s | %s | %s | `%s` | %s |" % (
            e["property"], e["status"], e.get("commit", "-"), e["signature"].replace("|", "\\|"),
            e["what"].replace("|", "\\|")))
    return "\n".join(lines)


def mutants_table():
    path = os.path.join(VERIF, "mutants", "RESULTS.json")
    if not os.path.exists(path):
        return "(run tools/selftest.py)"
    results = json.load(open(path))
    lines = ["| Change | What it does | Checks run (quick tier) -> outcome |", "|---|---|---|"]
    for r in results:
        if not r["name"].startswith("mutant:"):
            continue
        outcome = ", ".join("%s: %s" % (c, {0: "**missed**", 1: "caught", 2: "harness error"}.get(v["exit"], v["exit"]))
                            for c, v in r["checks"].items())
        lines.append("| %s | %s | %s |" % (r["name"][7:], r["description"], outcome))
    return "\n".join(lines)


def seeded_table():
    base = os.path.join(VERIF, "seeded")
    lines = ["| Seeded change | Property | Needs (from the author's note) | Confirmed | Caught by | Missed by |",
             "|---|---|---|---|---|---|"]
    for entry in sorted(os.listdir(base)) if os.path.isdir(base) else []:
        meta_path = os.path.join(base, entry, "meta.json")
        if not os.path.exists(meta_path):
            continue
        m = json.load(open(meta_path))
        needs = m.get("summary") or m.get("needs", "")
        needs = re.sub(r"\s+", " ", needs)[:260].replace("|", "\\|")
        missed = ", ".join(m.get("missed_by", [])) or "-"
        if m.get("disposition") and not m.get("caught_by"):
            missed += " (" + m["disposition"].split(":")[0] + ")"
        lines.append("| seeded/%s | %s | %s | %s | %s | %s |" % (
            entry, m["property"], needs, "yes" if m.get("confirmed") else "NO",
            ", ".join(m.get("caught_by", [])) or "-", missed))
    return "\n".join(lines)


def main():
    path = os.path.join(VERIF, "DESIGN.md")
    text = open(path, encoding="utf-8").read()
    for name, producer in (("findings", findings_table), ("mutants", mutants_table), ("seeded", seeded_table)):
        begin, end = "<!-- BEGIN:%s -->" % name, "<!-- END:%s -->" % name
        if begin in text and end in text:
            head, rest = text.split(begin, 1)
            _, tail = rest.split(end, 1)
            text = head + begin + "\n" + producer() + "\n" + end + tail
    open(path, "w", encoding="utf-8").write(text)
    print("DESIGN.md tables regenerated")


if __name__ == "__main__":
    main()
