#!/usr/bin/env python3
"""tools/seedimport.py <source dir with patch.diff demo.py note.md> <name> <property> [checks to run ...]

Copies a sub-agent's seeded change to /verif/seeded/<name>/, verifies it with tools/seedcheck.py (demo passes on the
unchanged tree, fails with the change; baseline suite still passes) and records which checks catch it in meta.json.
"""
import json
import os
import shutil
import subprocess
import sys

VERIF = os.path.dirname(os.path.dirname(os.path.abspath(__file__)))
source, name, prop = sys.argv[1:4]
checks = sys.argv[4:] or [prop]
target = os.path.join(VERIF, "seeded", name)
os.makedirs(target, exist_ok=True)
previous = {}
if os.path.exists(os.path.join(target, "meta.json")):
    previous = json.load(open(os.path.join(target, "meta.json")))
for item in ("patch.diff", "demo.py", "note.md"):
    # importing from the stored directory itself re-verifies it (after tools/rebase_patches.py re-cut its patch)
    if os.path.exists(os.path.join(source, item)) and os.path.abspath(source) != os.path.abspath(target):
        shutil.copy(os.path.join(source, item), os.path.join(target, item))
proc = subprocess.run([sys.executable, os.path.join(VERIF, "tools", "seedcheck.py"), target] + checks,
                      stdout=subprocess.PIPE, text=True)
result = json.loads(proc.stdout[proc.stdout.index("{"):])
note = open(os.path.join(target, "note.md"), encoding="utf-8").read() if os.path.exists(os.path.join(target, "note.md")) else ""
head = subprocess.run(["git", "-C", "/repo", "log", "--format=%h", "-1"], stdout=subprocess.PIPE, text=True).stdout.strip()
meta = {
    "property": prop,
    "checks": checks,
    "origin": "fresh sub-agent given only the property record and a scratch worktree of /repo (nothing from /verif)",
    "repo_head": head,
    "needs": " ".join(note.split())[:900],
    "what_i_ran": [
        "git worktree add <scratch> HEAD (of /repo); demo.py on the unchanged tree -> exit %s" % result.get("demo_unchanged_exit"),
        "git apply patch.diff; tools/baseline.py <scratch> -> %s" % result.get("baseline"),
        "demo.py on the changed tree -> exit %s" % result.get("demo_changed_exit"),
    ] + ["VERIF_REPO=<scratch> ./check %s --tier quick -> exit %s %s" % (c, v["exit"], v["signatures"][:3])
         for c, v in result["checks"].items()],
    "confirmed": bool(result.get("patch_applies") and result.get("baseline_ok") and result.get("demo_unchanged_exit") == 0
                      and result.get("demo_changed_exit") == 1),
    "caught_by": [c for c, v in result["checks"].items() if v["exit"] == 1],
    "missed_by": [c for c, v in result["checks"].items() if v["exit"] == 0],
}
for key in ("summary", "ported"):
    if key in previous:
        meta[key] = previous[key]
if previous.get("disposition") and not meta["caught_by"]:
    meta["disposition"] = previous["disposition"]
json.dump(meta, open(os.path.join(target, "meta.json"), "w"), indent=1)
print(name, "confirmed" if meta["confirmed"] else "NOT CONFIRMED", "caught by", meta["caught_by"], "missed by", meta["missed_by"])
