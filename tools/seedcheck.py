#!/usr/bin/env python3
"""Verify a seeded regression and run checks against it.

usage: tools/seedcheck.py <dir with patch.diff [+ demo.py]> <property id> [more check ids ...] [--no-baseline]

Steps (all in a scratch git worktree of /repo's HEAD outside /repo and /verif, removed afterwards):
  demo on the unchanged tree (expect exit 0), apply patch, baseline suite (expect every stable test to pass),
  demo on the changed tree (expect exit 1), then `VERIF_REPO=<worktree> ./check <id>` for each id (expect exit 1).
Evidence and replays of these runs go to a temporary directory, never to /verif/evidence.
Prints one JSON object.
"""
import json
import os
import re
import shutil
import subprocess
import sys
import tempfile

VERIF = os.path.dirname(os.path.dirname(os.path.abspath(__file__)))


def run(cmd, **kw):
    return subprocess.run(cmd, stdout=subprocess.PIPE, stderr=subprocess.STDOUT, text=True, **kw)


def main():
    args = [a for a in sys.argv[1:] if not a.startswith("--")]
    flags = [a for a in sys.argv[1:] if a.startswith("--")]
    source, ids = os.path.abspath(args[0]), args[1:]
    patch = os.path.join(source, "patch.diff")
    demo = os.path.join(source, "demo.py")
    scratch = tempfile.mkdtemp(prefix="seedcheck-")
    tree = os.path.join(scratch, "tree")
    out = {"dir": source, "checks": {}}
    try:
        run(["git", "-C", "/repo", "worktree", "add", "-q", "--detach", tree, "HEAD"])
        if os.path.exists(demo):
            out["demo_unchanged_exit"] = run(["/venv/bin/python", demo, tree], cwd=scratch).returncode
        applied = run(["git", "-C", tree, "apply", patch])
        out["patch_applies"] = applied.returncode == 0
        if applied.returncode != 0:
            out["apply_output"] = applied.stdout[-400:]
            print(json.dumps(out, indent=1))
            return 2
        if "--no-baseline" not in flags:
            base = run(["python3", os.path.join(VERIF, "tools", "baseline.py"), tree])
            out["baseline_ok"] = base.returncode == 0
            out["baseline"] = base.stdout.strip().splitlines()[0] if base.stdout.strip() else ""
        if os.path.exists(demo):
            result = run(["/venv/bin/python", demo, tree], cwd=scratch)
            out["demo_changed_exit"] = result.returncode
        env = dict(os.environ, VERIF_REPO=tree, VERIF_EVIDENCE_DIR=os.path.join(scratch, "evidence"),
                   VERIF_REPLAY_DIR=os.path.join(scratch, "replays"))
        for check_id in ids:
            tier = "quick"
            if ":" in check_id:
                check_id, tier = check_id.split(":")
            result = run([os.path.join(VERIF, "check"), check_id, "--tier", tier], env=env, cwd=VERIF)
            signatures = sorted(set(re.findall(r"DISCREPANCY signature=(\S+)", result.stdout)))
            wall = re.findall(r"wall=([0-9.]+)s", result.stdout)
            out["checks"][check_id] = {"exit": result.returncode, "signatures": signatures[:8],
                                       "wall_s": float(wall[-1]) if wall else None}
            if result.returncode == 2:
                out["checks"][check_id]["tail"] = result.stdout[-600:]
    finally:
        run(["git", "-C", "/repo", "worktree", "remove", "--force", tree])
        shutil.rmtree(scratch, ignore_errors=True)
        run(["git", "-C", "/repo", "worktree", "prune"])
    print(json.dumps(out, indent=1))
    return 0


if __name__ == "__main__":
    sys.exit(main())
