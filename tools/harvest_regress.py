#!/usr/bin/env python3
"""Turn replay files (shrunk failing cases written by the checks on defective or deliberately broken trees) into the
committed regression tier regress/<property>/.

    tools/harvest_regress.py <origin-label> <dir-with-replay-json>...

A replay is kept only if the property's check, replaying it against the CURRENT /repo tree, reports no violation and
no harness error (exit 0) - so the tier is quiet on the unchanged tree by construction - and if no kept input has the
same signature.  At most LIMIT inputs per property and origin label are kept; inputs above 48 KiB are skipped."""
import hashlib
import json
import os
import subprocess
import sys
from concurrent.futures import ThreadPoolExecutor

VERIF = os.path.dirname(os.path.dirname(os.path.abspath(__file__)))
LIMIT = 60


def replay_ok(prop, path):
    env = dict(os.environ, VERIF_WORKERS="1")
    env.pop("VERIF_REPO", None)
    proc = subprocess.run([os.path.join(VERIF, "check"), prop, "--replay", path], cwd=VERIF, env=env,
                          stdout=subprocess.PIPE, stderr=subprocess.STDOUT, universal_newlines=True, timeout=600)
    return proc.returncode == 0 and "replay: no violation" in proc.stdout


def main():
    origin = sys.argv[1]
    candidates = []
    for top in sys.argv[2:]:
        for folder, _, names in os.walk(top):
            for name in sorted(names):
                if name.endswith(".json"):
                    candidates.append(os.path.join(folder, name))
    existing = {}
    base = os.path.join(VERIF, "regress")
    for folder, _, names in os.walk(base):
        for name in names:
            if name.endswith(".json"):
                saved = json.load(open(os.path.join(folder, name), encoding="utf-8"))
                existing[(saved["property"], saved["signature"], saved.get("origin", "").split(":")[0])] = 1
    todo = []
    for path in candidates:
        try:
            if os.path.getsize(path) > 48 * 1024:
                continue
            saved = json.load(open(path, encoding="utf-8"))
            prop, signature, case = saved["property"], saved["signature"], saved["case"]
        except Exception:
            continue
        if case is None:
            continue
        label = origin
        rel = os.path.relpath(path, sys.argv[2]).split(os.sep)
        if len(rel) > 1:
            label = origin + ":" + rel[0]
        todo.append((path, saved, label))
    kept = skipped = 0
    per = {}

    def judge(item):
        path, saved, label = item
        return item, replay_ok(saved["property"], path)

    with ThreadPoolExecutor(12) as pool:
        for (path, saved, label), ok in pool.map(judge, todo):
            prop = saved["property"]
            key = (prop, saved["signature"], label.split(":")[0])
            name = hashlib.sha1((saved["signature"] + json.dumps(saved["case"], sort_keys=True, default=str)).encode("utf-8")).hexdigest()[:14]
            if not ok or key in existing or per.get((prop, origin), 0) >= LIMIT \
                    or os.path.exists(os.path.join(base, prop, name + ".json")):
                skipped += 1
                continue
            existing[key] = 1
            per[(prop, origin)] = per.get((prop, origin), 0) + 1
            body = {"property": prop, "signature": saved["signature"], "origin": label,
                    "message": saved.get("message", "")[:300], "case": saved["case"]}
            text = json.dumps(body, indent=1, sort_keys=True, default=str) + "\n"
            os.makedirs(os.path.join(base, prop), exist_ok=True)
            with open(os.path.join(base, prop, name + ".json"), "w", encoding="utf-8") as f:
                f.write(text)
            kept += 1
    print("kept %d, skipped %d (violates/harness error on the current tree, duplicate signature, too large, or over limit)" % (kept, skipped))


if __name__ == "__main__":
    main()
