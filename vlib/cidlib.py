"""Glue between spec dicts (vlib.gen_fields) and cutplace objects."""
from vlib import repo  # noqa: F401
from vlib.gen_fields import field_row, format_rows, last_named_field

from cutplace import data, fields, interface

_CLASSES = {
    "Integer": fields.IntegerFieldFormat, "Decimal": fields.DecimalFieldFormat, "Choice": fields.ChoiceFieldFormat,
    "Constant": fields.ConstantFieldFormat, "DateTime": fields.DateTimeFieldFormat,
    "Pattern": fields.PatternFieldFormat, "RegEx": fields.RegExFieldFormat, "Text": fields.TextFieldFormat,
}


def data_format_for(fmt):
    """A validated cutplace DataFormat for a format spec, built through set_property."""
    rows = format_rows(fmt)
    result = data.DataFormat(rows[0][2].lower())
    for _, name, value in rows[1:]:
        result.set_property(name.lower(), value)
    result.validate()
    return result


def field_format_for(field, data_format):
    cls = _CLASSES[field["type"]]
    return cls(field["name"], field["empty"], field["length"], field["rule"], data_format)


# properties no field consults while it is being declared: their row may follow the field rows
_LATE_PROPERTIES = ("allowed characters", "header", "encoding", "line delimiter", "sheet")


def cid_rows(fmt, field_specs, check_rows=()):
    """The rows of the CID.  ``fmt["layout"]`` (optional) arranges them differently without changing what they mean:
    'late-properties' moves the properties of _LATE_PROPERTIES behind the field rows (only Format has to come first),
    'early-checks' puts every check directly behind the last field its rule names, 'both' does both."""
    properties = format_rows(fmt)
    field_rows = [field_row(f) for f in field_specs]
    checks = [list(r) for r in check_rows]
    layout = fmt.get("layout")
    if not layout:
        return properties + field_rows + checks
    late = []
    if layout in ("late-properties", "both"):
        late = [row for row in properties[1:] if row[1].lower() in _LATE_PROPERTIES]
        properties = [row for row in properties if row not in late]
        if fmt.get("allowed_at_first"):
            # the allowed characters are declared twice: generously in front of the fields, for good behind them
            # (what counts is the last declaration)
            properties = properties[:1] + [["D", "Allowed characters", fmt["allowed_at_first"]]] + properties[1:]
    body = list(field_rows)
    tail = []
    if layout in ("early-checks", "both"):
        placed = {}
        for check in checks:
            placed.setdefault(last_named_field([f["name"] for f in field_specs], check[3]), []).append(check)
        body = []
        for index, row in enumerate(field_rows):
            body.append(row)
            body.extend(placed.get(index, []))
    else:
        tail = checks
    return properties + body + late + tail


def load_cid(rows, name="cid"):
    cid = interface.Cid()
    cid.read(name, [list(r) for r in rows])
    return cid
