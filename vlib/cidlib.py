"""Glue between spec dicts (vlib.gen_fields) and cutplace objects."""
from vlib import repo  # noqa: F401
from vlib.gen_fields import field_row, format_rows

from cutplace import data, fields, interface

_CLASSES = {
    "Integer": fields.IntegerFieldFormat, "Decimal": fields.DecimalFieldFormat, "Choice": fields.ChoiceFieldFormat,
    "Constant": fields.ConstantFieldFormat, "DateTime": fields.DateTimeFieldFormat,
    "Pattern": fields.PatternFieldFormat, "RegEx": fields.RegExFieldFormat, "Text": fields.TextFieldFormat,
}


def data_format_for(fmt):
    """A validated cutplace DataFormat for a format spec, built through set_property."""
    rows = format_rows(fmt)
    result = data.DataFormat(rows[0][2].lower())
    for _, name, value in rows[1:]:
        result.set_property(name.lower(), value)
    result.validate()
    return result


def field_format_for(field, data_format):
    cls = _CLASSES[field["type"]]
    return cls(field["name"], field["empty"], field["length"], field["rule"], data_format)


def cid_rows(fmt, field_specs, check_rows=()):
    return format_rows(fmt) + [field_row(f) for f in field_specs] + [list(r) for r in check_rows]


def load_cid(rows, name="cid"):
    cid = interface.Cid()
    cid.read(name, [list(r) for r in rows])
    return cid
