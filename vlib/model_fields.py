"""Reference semantics of field types and of the base-class guards.  No cutplace import.

A *field spec* is a JSON-able dict:
    {"name", "empty": bool, "length": text, "length_items": [[lo,hi],..] or None, "type", "rule", "model": {...}}
A *format spec* is a JSON-able dict:
    {"format": "delimited"|"fixed"|"excel"|"ods", "decimal": ".", "thousands": "", "allowed": [[lo,hi],..] or None,
     "allowed_text": "...", "header": 0, ...}

verdict(field, fmt, cell) -> ("accept", native) | ("reject", reason) | ("neutral", reason)
native: int | Decimal | tuple of six ints | str | None (empty value of Integer/Decimal/DateTime)
"""
import calendar
import re
from decimal import Decimal

from vlib.gen_range import member

EMPTY_VALUE = {"Integer": None, "Decimal": None, "DateTime": None, "Choice": "", "Constant": "", "Pattern": "",
               "RegEx": "", "Text": ""}


# ---------------------------------------------------------------------------------------------
# guards (C03)
# ---------------------------------------------------------------------------------------------
def verdict(field, fmt, cell):
    fixed = fmt["format"] == "fixed"
    allowed = fmt.get("allowed")
    if fixed and cell != "" and cell.strip(" ") == "" and allowed is not None and not member(allowed, 32):
        return ("neutral", "blank cell although blanks are not allowed characters")
    if allowed is not None:
        for ch in cell:
            if not member(allowed, ord(ch)):
                return ("reject", "character")
    stripped = cell.strip() if fixed else cell
    # fixed: only blanks (U+0020) are padding by the statement; other white space only is left neutral
    if fixed and stripped == "" and cell.strip(" ") != "":
        return ("neutral", "fixed cell of non-blank white space")
    if stripped == "":
        if fixed and field.get("length_items") and len(cell) > field["length_items"][0][0]:
            return ("neutral", "blank cell wider than the fixed field")
        if field["empty"]:
            return ("accept", EMPTY_VALUE[field["type"]])
        return ("reject", "empty")
    items = field.get("length_items")
    if items is not None:
        if fixed:
            width = items[0][0]
            if len(cell) > width:
                return ("reject", "length")
        elif not member(items, len(cell)):
            return ("reject", "length")
    if fixed and stripped != cell.strip(" "):
        # the cell has leading/trailing white space other than blanks: what is stripped is left open
        return ("neutral", "fixed cell padded with non-blank white space")
    return rule_verdict(field, fmt, stripped)


def rule_verdict(field, fmt, cell):
    return _RULES[field["type"]](field, fmt, cell)


# ---------------------------------------------------------------------------------------------
# Integer
# ---------------------------------------------------------------------------------------------
_CANONICAL_INT = re.compile(r"-?(0|[1-9][0-9]*)\Z")
_INT_LENIENT = re.compile(r"[-+_\s\d]*\Z")


def _integer(field, fmt, cell):
    model = field["model"]
    if cell == "-0":
        return ("neutral", "minus zero")
    if _CANONICAL_INT.match(cell):
        value = int(cell)
        items = model["range_items"]
        if items is None or member(items, value):
            return ("accept", value)
        return ("reject", "range")
    if _INT_LENIENT.match(cell):
        return ("neutral", "lenient integer spelling")
    return ("reject", "not an integer")


def length_range_items(length_items):
    """Range of integers whose canonical text fits the length declaration (own derivation)."""
    if length_items is None:
        return None
    out = []
    for lo, hi in length_items:
        lo = 0 if lo is None else lo
        # texts with n characters: n == 1: 0..9; n >= 2: -(10^(n-1)-1)..-(10^(n-2)) and 10^(n-1)..10^n-1
        # union over n in [max(lo,1), hi]
        low_n = max(lo, 1)
        if hi is not None and hi < low_n:
            continue
        if low_n == 1:
            lower = None if hi is None else (0 if hi == 1 else -(10 ** (hi - 1) - 1))
            upper = None if hi is None else 10 ** hi - 1
            out.append([lower, upper])
        else:
            out.append([None if hi is None else -(10 ** (hi - 1) - 1), -(10 ** (low_n - 2))])
            out.append([10 ** (low_n - 1), None if hi is None else 10 ** hi - 1])
    return out


# ---------------------------------------------------------------------------------------------
# Decimal
# ---------------------------------------------------------------------------------------------
def _decimal(field, fmt, cell):
    model = field["model"]
    ds = fmt.get("decimal", ".")
    ts = fmt.get("thousands", "")
    if cell.count(ds) > 1:
        return ("reject", "two decimal separators")
    if ts and ds in cell and ts in cell[cell.index(ds):]:
        return ("reject", "thousands separator after decimal separator")
    digits = "0123456789"
    for ch in cell:
        if ch == "," and ds != "," and ts != ",":
            return ("reject", "comma is neither decimal nor thousands separator")
        if ch in digits or ch == ds or (ts and ch == ts) or ch in "-+eE_" or ch.isspace() or ch in ".,":
            continue
        if ch.isdigit() or ch.isnumeric():
            continue
        return ("reject", "not a number")
    if ts:
        canonical = re.compile(r"-?[0-9]{1,3}(%s[0-9]{3})*(%s[0-9]+)?\Z" % (re.escape(ts), re.escape(ds)))
    else:
        canonical = None
    plain = re.compile(r"-?[0-9]+(%s[0-9]+)?\Z" % re.escape(ds))
    if plain.match(cell) or (canonical is not None and canonical.match(cell)):
        text = cell.replace(ts, "") if ts else cell
        text = text.replace(ds, ".")
        value = Decimal(text)
        items = [[None if v is None else Decimal(v) for v in it] for it in model["range_items"]]
        if member(items, value):
            return ("accept", value)
        return ("reject", "range")
    return ("neutral", "lenient decimal spelling")


# ---------------------------------------------------------------------------------------------
# Choice / Constant / Text
# ---------------------------------------------------------------------------------------------
def _choice(field, fmt, cell):
    if cell in field["model"]["choices"]:
        return ("accept", cell)
    return ("reject", "not a choice")


def _constant(field, fmt, cell):
    if cell == field["model"]["constant"]:
        return ("accept", cell)
    return ("reject", "not the constant")


def _text(field, fmt, cell):
    return ("accept", cell)


# ---------------------------------------------------------------------------------------------
# DateTime
# ---------------------------------------------------------------------------------------------
PLACEHOLDERS = ("DD", "MM", "YYYY", "YY", "hh", "mm", "ss")


def _datetime(field, fmt, cell):
    layout = field["model"]["layout"]  # list of placeholders and literal strings (punctuation / blanks only)
    has_time = any(p in ("hh", "mm", "ss") for p in layout)
    if fmt["format"] == "excel" and not has_time and cell.endswith(" 00:00:00"):
        cell = cell[: -len(" 00:00:00")]
    literals = "".join(p for p in layout if p not in PLACEHOLDERS)
    flexible = any(ch.isspace() for ch in literals)  # strptime reads white space in the format as a run
    full = sum((4 if p == "YYYY" else 2) if p in PLACEHOLDERS else len(p) for p in layout)
    for ch in cell:
        if not (ch.isdigit() or ch.isspace() or ch in literals):
            return ("reject", "character no layout element can read")
    if len(cell) != full:
        # numbers may be written with fewer digits (strptime), so only an over-long value is certainly wrong
        if len(cell) > full and not flexible:
            return ("reject", "too long")
        return ("neutral", "length differs from the zero-padded layout")
    pos = 0
    values = {}
    for part in layout:
        if part in PLACEHOLDERS:
            width = 4 if part == "YYYY" else 2
            chunk = cell[pos:pos + width]
            if len(chunk) == width and chunk.isascii() and chunk.isdigit():
                values[part] = int(chunk)
                pos += width
            else:
                nxt = cell[pos:pos + 1]
                if nxt != "" and (nxt.isdigit() or nxt.isspace()):
                    return ("neutral", "unpadded number")
                return ("reject", "digits expected")
        elif cell.startswith(part, pos):
            pos += len(part)
        elif flexible:
            return ("neutral", "literal mismatch with flexible white space")
        else:
            return ("reject", "literal expected")
    if pos != len(cell):
        return ("reject", "trailing text")
    year = values.get("YYYY")
    if year is None and "YY" in values:
        yy = values["YY"]
        year = 2000 + yy if yy <= 68 else 1900 + yy
    month = values.get("MM")
    day = values.get("DD")
    hour = values.get("hh", 0)
    minute = values.get("mm", 0)
    second = values.get("ss", 0)
    if year is not None and year < 1:
        return ("reject", "year 0")
    if month is not None and not (1 <= month <= 12):
        return ("reject", "month")
    if hour > 23 or minute > 59:
        return ("reject", "time")
    if second > 61:
        return ("reject", "second")
    if second > 59:
        return ("neutral", "leap second")
    if day is not None:
        if day < 1 or day > 31:
            return ("reject", "day")
        if month is not None:
            if year is not None:
                if day > calendar.monthrange(year, month)[1]:
                    return ("reject", "day of month")
            else:
                if day > (29 if month == 2 else calendar.monthrange(2001, month)[1]):
                    return ("reject", "day of month")
                if month == 2 and day == 29:
                    return ("neutral", "29 february without year")
        # day without month: strptime assumes january, 1..31 all fine
    native = (year if year is not None else 1900, month if month is not None else 1,
              day if day is not None else 1, hour, minute, second)
    return ("accept", native)


# ---------------------------------------------------------------------------------------------
# Pattern (glob) - own matcher
# ---------------------------------------------------------------------------------------------
# characters whose upper / lower case form is not one character, or that 're' pairs with an ASCII letter when it
# ignores case: what "ignoring case" means for them against a literal or a character class is left open, but each of
# them is ONE character for '?' and any run of them is matched by '*'
EXOTIC_CASE_CHARS = "\u0130\u0131\u017f\u00df\u00b5\u03c2\u03a3\u212a\u01c5"


def _fold_eq(a, b):
    return a == b or a.lower() == b.lower() or a.upper() == b.upper()


def _class_matches(cls, ch):
    """cls = {"neg": bool, "items": [[lo_char, hi_char], ...]}"""
    hit = False
    for lo, hi in cls["items"]:
        for variant in {ch, ch.lower(), ch.upper()}:
            if len(variant) == 1 and lo <= variant <= hi:
                hit = True
    return hit != cls["neg"]


def glob_match(tokens, text, exotic=None):
    """tokens: list of {"t": "lit", "c": ch} | {"t": "any"} | {"t": "star"} | {"t": "class", ...}; full match.

    ``exotic``: None, or the answer (True / False) to assume whenever one of EXOTIC_CASE_CHARS in the text meets a
    literal or a character class."""
    memo = {}

    def rec(ti, pos):
        key = (ti, pos)
        if key in memo:
            return memo[key]
        if ti == len(tokens):
            result = pos == len(text)
        else:
            tok = tokens[ti]
            kind = tok["t"]
            if kind == "star":
                result = any(rec(ti + 1, p) for p in range(pos, len(text) + 1))
            elif pos >= len(text):
                result = False
            elif kind == "any":
                result = rec(ti + 1, pos + 1)
            elif exotic is not None and text[pos] in EXOTIC_CASE_CHARS:
                result = exotic and rec(ti + 1, pos + 1)
            elif kind == "lit":
                result = _fold_eq(tok["c"], text[pos]) and rec(ti + 1, pos + 1)
            else:
                result = _class_matches(tok, text[pos]) and rec(ti + 1, pos + 1)
        memo[key] = result
        return result

    return rec(0, 0)


def _pattern(field, fmt, cell):
    if "\n" in cell or "\r" in cell:
        return ("neutral", "line break in value")
    tokens = field["model"]["tokens"]
    if any(ch in EXOTIC_CASE_CHARS for ch in cell):
        optimistic, pessimistic = glob_match(tokens, cell, True), glob_match(tokens, cell, False)
        if optimistic != pessimistic:
            return ("neutral", "character with a special case mapping against a literal or a class")
        return ("accept", cell) if optimistic else ("reject", "glob does not match")
    if glob_match(tokens, cell):
        return ("accept", cell)
    return ("reject", "glob does not match")


# ---------------------------------------------------------------------------------------------
# RegEx - own backtracking matcher over a small AST
# ---------------------------------------------------------------------------------------------
# node: {"t":"lit","c":ch} | {"t":"dot"} | {"t":"class","neg":..,"items":[[lo,hi],..]} | {"t":"seq","items":[..]}
#       | {"t":"alt","items":[..]} | {"t":"rep","node":..,"min":m,"max":n or None} | {"t":"bol"} | {"t":"eol"}
def regex_prefix_match(node, text):
    """True if some prefix of text (starting at 0) is matched by node.

    Computes, per (node, start), the set of end positions of all matches (polynomial, no backtracking blow-up).
    """
    memo = {}
    n = len(text)

    def ends(node, pos):
        key = (id(node), pos)
        if key in memo:
            return memo[key]
        kind = node["t"]
        if kind == "lit":
            result = {pos + 1} if pos < n and _fold_eq(node["c"], text[pos]) else set()
        elif kind == "dot":
            result = {pos + 1} if pos < n and text[pos] != "\n" else set()
        elif kind == "class":
            result = {pos + 1} if pos < n and _class_matches(node, text[pos]) else set()
        elif kind == "bol":
            result = {pos} if (pos == 0 or text[pos - 1] == "\n") else set()
        elif kind == "eol":
            result = {pos} if (pos == n or text[pos] == "\n") else set()
        elif kind == "seq":
            current = {pos}
            for item in node["items"]:
                nxt = set()
                for p in current:
                    nxt |= ends(item, p)
                current = nxt
                if not current:
                    break
            result = current
        elif kind == "alt":
            result = set()
            for item in node["items"]:
                result |= ends(item, pos)
        elif kind == "rep":
            lo, hi, inner = node["min"], node["max"], node["node"]
            result = set()
            current = {pos}
            if lo == 0:
                result |= current
            count = 0
            limit = hi if hi is not None else lo + n + 1
            while current and count < limit:
                nxt = set()
                for p in current:
                    nxt |= ends(inner, p)
                count += 1
                if count >= lo:
                    if nxt <= result and hi is None:
                        break
                    result |= nxt
                current = nxt
        else:
            raise AssertionError(kind)
        memo[key] = result
        return result

    return bool(ends(node, 0))


def _has_node(node, kind):
    if node["t"] == kind:
        return True
    children = node.get("items", []) if node["t"] in ("seq", "alt") else [node["node"]] if node["t"] == "rep" else []
    return any(_has_node(child, kind) for child in children)


def _regex(field, fmt, cell):
    # a line feed in the value is judged unless the rule says '$' (whether that means the end of the value or of a
    # line is left open); '.' stands for any character but a line feed, as in every regular expression dialect
    if "\r" in cell or ("\n" in cell and _has_node(field["model"]["ast"], "eol")):
        return ("neutral", "line break in value")
    if regex_prefix_match(field["model"]["ast"], cell):
        return ("accept", cell)
    return ("reject", "regex does not match")


_RULES = {
    "Integer": _integer,
    "Decimal": _decimal,
    "Choice": _choice,
    "Constant": _constant,
    "Text": _text,
    "DateTime": _datetime,
    "Pattern": _pattern,
    "RegEx": _regex,
}


# ---------------------------------------------------------------------------------------------
# comparing a native value returned by cutplace with the expected one
# ---------------------------------------------------------------------------------------------
def native_equal(expected, actual):
    import time

    if expected is None:
        return actual is None
    if isinstance(expected, tuple):
        return isinstance(actual, time.struct_time) and tuple(actual[:6]) == expected
    if isinstance(expected, bool) or isinstance(actual, bool):
        return False
    if isinstance(expected, int):
        return isinstance(actual, int) and actual == expected
    if isinstance(expected, Decimal):
        return isinstance(actual, Decimal) and actual == expected
    return type(actual) is str and actual == expected
