"""Coverage-guided fuzz target (atheris) for C01: Range / DecimalRange against a reference recogniser.

Run as a script:  python -m vlib.fuzz_range <out.json> -runs=N -seed=S [corpus dir]
The semantic oracle lives inside the target: a text is first read by an independent recogniser of the documented
range grammar (hand-written scanner, no tokenize); only if it is in that grammar and its items do not overlap, the
same checks as the Hypothesis part of C01 apply. Everything else is "no claim".  A discrepancy is written to <out.json>
and raised so that libFuzzer stops and saves the input.
"""
import json
import os
import sys
from decimal import Decimal

SYMBOLIC = {"cr": 13, "ff": 12, "lf": 10, "tab": 9, "vt": 11}
SIMPLE_ESCAPES = {"t": 9, "n": 10, "r": 13, "f": 12, "v": 11, "\\": 92, "'": 39, '"': 34}
HEX = "0123456789abcdefABCDEF"


class NoClaim(Exception):
    pass


def _scan_limit(text, pos, decimal):
    """(value, new pos) for a limit starting at pos, or NoClaim."""
    n = len(text)
    start = pos
    negative = False
    if pos < n and text[pos] == "-":
        negative = True
        pos += 1
    if pos < n and text[pos].isdigit() and text[pos].isascii():
        if not decimal and text[pos] == "0" and pos + 1 < n and text[pos + 1] in "xX":
            end = pos + 2
            while end < n and text[end] in HEX:
                end += 1
            if end == pos + 2:
                raise NoClaim()
            value = int(text[pos + 2:end], 16)
            pos = end
        else:
            end = pos
            while end < n and text[end].isascii() and text[end].isdigit():
                end += 1
            digits = text[pos:end]
            if len(digits) > 1 and digits[0] == "0":
                raise NoClaim()  # leading zeros are not documented
            if decimal and end < n and text[end] == "." and not text.startswith("...", end):
                frac_end = end + 1
                while frac_end < n and text[frac_end].isascii() and text[frac_end].isdigit():
                    frac_end += 1
                if frac_end == end + 1:
                    raise NoClaim()  # "1." is not a documented spelling
                value = Decimal(text[pos:frac_end])
                end = frac_end
            else:
                value = Decimal(digits) if decimal else int(digits)
            pos = end
        if pos < n and (text[pos].isalnum() or text[pos] in "_."):
            if not text.startswith("...", pos):
                raise NoClaim()
        if negative:
            value = value.copy_negate() if isinstance(value, Decimal) else -value
        return value, pos
    if negative or decimal:
        raise NoClaim()
    if pos < n and text[pos] in "'\"":
        quote = text[pos]
        body_start = pos + 1
        if body_start >= n:
            raise NoClaim()
        if text[body_start] == "\\":
            if body_start + 1 >= n:
                raise NoClaim()
            kind = text[body_start + 1]
            if kind in SIMPLE_ESCAPES:
                value, body_end = SIMPLE_ESCAPES[kind], body_start + 2
            elif kind == "x" and all(c in HEX for c in text[body_start + 2:body_start + 4]) and len(
                    text[body_start + 2:body_start + 4]) == 2:
                value, body_end = int(text[body_start + 2:body_start + 4], 16), body_start + 4
            elif kind == "u" and all(c in HEX for c in text[body_start + 2:body_start + 6]) and len(
                    text[body_start + 2:body_start + 6]) == 4:
                value, body_end = int(text[body_start + 2:body_start + 6], 16), body_start + 6
                if 0xD800 <= value <= 0xDFFF:
                    raise NoClaim()
            else:
                raise NoClaim()
        else:
            ch = text[body_start]
            if ch == quote or not ch.isprintable():
                raise NoClaim()
            value, body_end = ord(ch), body_start + 1
        if body_end >= n or text[body_end] != quote:
            raise NoClaim()
        pos = body_end + 1
        if pos < n and (text[pos].isalnum() or text[pos] in "_'\""):
            raise NoClaim()
        return value, pos
    end = pos
    while end < n and text[end].isascii() and text[end].isalpha():
        end += 1
    word = text[pos:end].lower()
    if word in SYMBOLIC and not (end < n and (text[end].isalnum() or text[end] == "_")):
        return SYMBOLIC[word], end
    raise NoClaim()


def recognise(text, decimal=False):
    """Items [(lo, hi)] of a description in the documented grammar, else NoClaim."""
    if len(text) > 200:
        raise NoClaim()
    items = []
    for part in _split_items(text):
        pos = 0
        n = len(part)

        def blanks(p):
            while p < n and part[p] == " ":
                p += 1
            return p

        pos = blanks(pos)
        lower = upper = None
        ranged = False
        if not _at_separator(part, pos):
            lower, pos = _scan_limit(part, pos, decimal)
            pos = blanks(pos)
        sep = _at_separator(part, pos)
        if sep:
            ranged = True
            pos = blanks(pos + sep)
            if pos < n:
                upper, pos = _scan_limit(part, pos, decimal)
                pos = blanks(pos)
        if pos != n:
            raise NoClaim()
        if not ranged:
            if lower is None:
                raise NoClaim()
            upper = lower
        if lower is None and upper is None:
            raise NoClaim()
        if lower is not None and upper is not None and lower > upper:
            raise NoClaim()
        items.append((lower, upper))
    if not items:
        raise NoClaim()
    for i, a in enumerate(items):
        for b in items[i + 1:]:
            alo = a[0] if a[0] is not None else float("-inf")
            ahi = a[1] if a[1] is not None else float("inf")
            blo = b[0] if b[0] is not None else float("-inf")
            bhi = b[1] if b[1] is not None else float("inf")
            if not (ahi < blo or bhi < alo):
                raise NoClaim()  # overlapping items are outside the property's domain
    return items


def _at_separator(part, pos):
    if part.startswith("...", pos):
        return 3
    if pos < len(part) and part[pos] in ":…":
        return 1
    return 0


def _split_items(text):
    """Split at commas outside quotes."""
    parts, current, quote, escaped = [], "", None, False
    for ch in text:
        if quote:
            current += ch
            if escaped:
                escaped = False
            elif ch == "\\":
                escaped = True
            elif ch == quote:
                quote = None
        elif ch in "'\"":
            quote = ch
            current += ch
        elif ch == ",":
            parts.append(current)
            current = ""
        else:
            current += ch
    if quote:
        raise NoClaim()
    parts.append(current)
    return parts


def member(items, value):
    return any((lo is None or value >= lo) and (hi is None or value <= hi) for lo, hi in items)


def judge(text, decimal, ranges, errors):
    """None if no claim or consistent, else (signature, message)."""
    try:
        items = recognise(text, decimal)
    except NoClaim:
        return None
    cls = ranges.DecimalRange if decimal else ranges.Range
    kind = "dec" if decimal else "int"
    try:
        rng = cls(text)
    except Exception as error:
        return ("C01|fuzz|construct|%s|%s" % (kind, type(error).__name__),
                "description %r is in the documented grammar (items %r) but was rejected: %s" % (text, items, error))
    if rng.items is None or sorted(map(_key, rng.items)) != sorted(map(_key, items)):
        return ("C01|fuzz|items|" + kind, "items of %r are %r, reference %r" % (text, rng.items, items))
    lows = [lo for lo, _ in items]
    highs = [hi for _, hi in items]
    lower = None if any(v is None for v in lows) else min(lows)
    upper = None if any(v is None for v in highs) else max(highs)
    if rng.lower_limit != lower or rng.upper_limit != upper:
        return ("C01|fuzz|limits|" + kind, "limits of %r are (%r, %r), reference (%r, %r)" % (
            text, rng.lower_limit, rng.upper_limit, lower, upper))
    probes = set()
    for lo, hi in items:
        for v in (lo, hi):
            if v is not None:
                probes.update((v - 1, v, v + 1))
    for probe in probes:
        try:
            rng.validate("x", probe)
            accepted = True
        except errors.RangeValueError:
            accepted = False
        except Exception as error:
            return ("C01|fuzz|exc-type|" + type(error).__name__, "validate(%r) on %r raised %r" % (probe, text, error))
        if accepted != member(items, probe):
            return ("C01|fuzz|member|%s|%s" % (kind, "accepted-outside" if accepted else "rejected-inside"),
                    "%r: value %r %s" % (text, probe, "accepted" if accepted else "rejected"))
    return None


def _key(item):
    lo, hi = item
    return (lo is None, 0 if lo is None else lo, hi is None, 0 if hi is None else hi)


VOCABULARY = ["0", "1", "2", "5", "9", "10", "127", "128", "255", "256", "65535", "-", "0x", "0X", "a", "F", "f",
              "...", ":", "…", ",", " ", "'", '"', "\\t", "\\\\", "\\x41", "\\u00dc", "tab", "CR", "lf", "Vt", "ff",
              ".", "5", "25", "x", "A", "z", "…"]


def text_from_bytes(data):
    """Two decodings: raw UTF-8 text, or a token sequence from a small vocabulary (reaches the grammar faster)."""
    if not data:
        return "", False
    mode = data[0]
    decimal = bool(mode & 1)
    if mode & 2:
        return "".join(VOCABULARY[b % len(VOCABULARY)] for b in data[1:41]), decimal
    return data[1:81].decode("utf-8", "ignore"), decimal


def main():
    out_path = sys.argv[1]
    argv = [sys.argv[0]] + sys.argv[2:]
    import atheris

    with atheris.instrument_imports(include=["cutplace"]):
        from vlib import repo  # noqa: F401
        from cutplace import errors, ranges

    stats = {"executions": 0, "claims": 0}

    def target(data):
        text, decimal = text_from_bytes(data)
        stats["executions"] += 1
        if stats["executions"] % 20000 == 0:
            with open(out_path + ".stats", "w") as f:
                json.dump(stats, f)
        if "\x00" in text:
            return
        try:
            recognise(text, decimal)
            stats["claims"] += 1
            if len(stats.setdefault("samples", [])) < 5 and stats["claims"] % 997 == 1:
                stats["samples"].append(text)
        except NoClaim:
            pass
        verdict = judge(text, decimal, ranges, errors)
        if verdict is not None:
            with open(out_path, "w", encoding="utf-8") as f:
                json.dump({"signature": verdict[0], "message": verdict[1],
                           "case": {"fuzz_text": text, "decimal": decimal}}, f)
            raise RuntimeError(verdict[1])

    atheris.Setup(argv, target)
    atheris.Fuzz()


if __name__ == "__main__":
    main()
