"""Independent xlsx producer: XlsxWriter used directly, never through cutplace.

A workbook is described by plain JSON-able data so that cases can be saved as replay files:

    workbook = {"sheets": [sheet, ...], "options": {"inline": bool, "date_1904": bool, "names": [str, ...]}}
    sheet    = [row, ...]          row = [cell, ...]   (rows may be ragged, [] is an empty row)
    cell     = None                nothing is written
             | "text"              shorthand for ["s", "text"]
             | ["s", text]         string, written with write_string (never becomes a formula or number)
             | ["n", value, f]     number (int with |value| <= 2**53, or finite float already normalised with
                                   normalise_float); f = index into NUMBER_FORMATS (0: no number format)
             | ["b", bool]         boolean
             | ["d", "YYYY-MM-DD hh:mm:ss", f]   date-time at a whole second, f = index into DATE_FORMATS
             | ["t", "hh:mm:ss", f]              pure time at a whole second, f = index into TIME_FORMATS
             | ["k", f]            formatted blank cell (number format NUMBER_FORMATS[f]), no value

What an xlsx file cannot represent is resolved here, once, so that producer and oracle agree:

* an empty string is not stored at all (XlsxWriter skips it), so it is the same as ``None``;
* the stored table is the bounding box of the valued cells (see ``bounding_box``): trailing empty rows and
  columns do not exist in the file;
* formatted blank cells are only written inside the bounding box (whether a formatted blank cell beyond the last
  value belongs to the "sheet's width" is a matter of taste the checks stay away from);
* numbers are stored with 16 significant digits ('%.16G'), see ``normalise_float``.

Nothing in this module imports cutplace.
"""
import datetime
import math

import os

import xlsxwriter

# Number formats under which a cell stays a plain number (currency, percent, scientific, fraction, ...).
# Integers are indexes of Excel's built-in formats.
NUMBER_FORMATS = [
    None, "0", "0.00", "0%", "#,##0.00", "0.00E+00", "# ?/?", 2, 4, 9, 10, 11, 12, 7, 8, 44,
    "[$$-409]#,##0.00", '#,##0.00 "€"', "[Red]0.00;[Blue]-0.00",
]
# Number formats that make a number a date (with or without a time part).
DATE_FORMATS = ["yyyy-mm-dd hh:mm:ss", "yyyy-mm-dd", "dd/mm/yyyy hh:mm", "d mmm yyyy", 14, 22, "dd.mm.yy"]
# Number formats used for pure times.
TIME_FORMATS = ["hh:mm:ss", "h:mm:ss AM/PM", "hh:mm", 21, "[h]:mm:ss", 20, 46]

MAX_WHOLE = 2 ** 53
_LARGEST_16G = 1.797693134862315e308  # largest double that survives '%.16G' without becoming infinite


def normalise_float(value):
    """The double XlsxWriter actually stores for ``value`` (it writes ``'%.16G' % value``)."""
    value = float(value)
    assert not math.isnan(value) and not math.isinf(value)
    result = float("%.16G" % value)
    if math.isinf(result):
        result = math.copysign(_LARGEST_16G, value)
    return result


def kind_of(cell):
    """'e' (nothing stored), 's', 'n', 'b', 'd', 't' or 'k'."""
    if cell is None:
        return "e"
    if isinstance(cell, str):
        return "s" if cell != "" else "e"
    kind = cell[0]
    if kind == "s" and cell[1] == "":
        return "e"
    assert kind in ("s", "n", "b", "d", "t", "k"), "cell=%r" % (cell,)
    return kind


def has_value(cell):
    return kind_of(cell) not in ("e", "k")


def bounding_box(rows):
    """(height, width) of the table stored for ``rows``: up to the last row / column holding a value."""
    height = 0
    width = 0
    for y, row in enumerate(rows):
        for x, cell in enumerate(row):
            if has_value(cell):
                height = max(height, y + 1)
                width = max(width, x + 1)
    return height, width


def parse_datetime(text):
    date_part, time_part = text.split(" ")
    year, month, day = [int(item) for item in date_part.split("-")]
    hour, minute, second = [int(item) for item in time_part.split(":")]
    return datetime.datetime(year, month, day, hour, minute, second)


def parse_time(text):
    hour, minute, second = [int(item) for item in text.split(":")]
    return datetime.time(hour, minute, second)


def number_value(cell):
    """The stored double of a number cell."""
    value = cell[1]
    if isinstance(value, bool) or not isinstance(value, (int, float)):
        raise ValueError("number cell must hold int or float: %r" % (cell,))
    if isinstance(value, int):
        if abs(value) > MAX_WHOLE:
            raise ValueError("whole number beyond 2**53: %r" % value)
        return float(value)
    if normalise_float(value) != value:
        raise ValueError("float is not normalised to 16 significant digits: %r" % value)
    return value


class _Formats(object):
    def __init__(self, workbook):
        self._workbook = workbook
        self._cache = {}

    def get(self, num_format):
        if num_format is None:
            return None
        result = self._cache.get(num_format)
        if result is None:
            result = self._workbook.add_format({"num_format": num_format})
            self._cache[num_format] = result
        return result


def write_workbook(path, sheets, options=None):
    """Write ``sheets`` (see module docstring) to the xlsx file ``path``."""
    options = options or {}
    book_options = {"strings_to_numbers": False, "strings_to_formulas": False, "strings_to_urls": False}
    if options.get("inline"):
        # rows are flushed one by one and strings are stored inline (t="inlineStr") instead of in the shared
        # string table
        book_options["constant_memory"] = True
        # XlsxWriter keeps one row-data temp file per worksheet in this mode and leaves it behind: put it next to
        # the target (a per-case scratch directory the caller removes) instead of the system temp directory
        book_options["tmpdir"] = os.path.dirname(os.path.abspath(path))
    else:
        book_options["in_memory"] = True
    if options.get("date_1904"):
        book_options["date_1904"] = True
    names = options.get("names") or []
    workbook = xlsxwriter.Workbook(path, book_options)
    pending_activation = []
    try:
        formats = _Formats(workbook)
        for index, rows in enumerate(sheets):
            name = names[index] if index < len(names) and names[index] else None
            worksheet = workbook.add_worksheet(name)
            visibility = (options.get("visibility") or {}).get(str(index))
            if visibility:
                # a sheet the user does not see is still a sheet of the workbook (and keeps its number); Excel wants
                # one visible sheet to be the active one
                others = [i for i in range(len(sheets)) if not (options.get("visibility") or {}).get(str(i))]
                if others:
                    pending_activation.append(others[0])
                    if visibility == "veryHidden":
                        worksheet.very_hidden()
                    else:
                        worksheet.hide()
            height, width = bounding_box(rows)
            for y, row in enumerate(rows[:height]):
                for x, cell in enumerate(row[:width]):
                    kind = kind_of(cell)
                    if kind == "e":
                        continue
                    if kind == "s":
                        text = cell if isinstance(cell, str) else cell[1]
                        status = worksheet.write_string(y, x, text)
                    elif kind == "n":
                        number_value(cell)
                        status = worksheet.write_number(y, x, cell[1], formats.get(NUMBER_FORMATS[cell[2]]))
                    elif kind == "b":
                        status = worksheet.write_boolean(y, x, bool(cell[1]))
                    elif kind == "d":
                        moment = parse_datetime(cell[1])
                        if len(cell) > 3:  # optional 4th item: milliseconds past the whole second
                            moment += datetime.timedelta(milliseconds=cell[3])
                        status = worksheet.write_datetime(y, x, moment, formats.get(DATE_FORMATS[cell[2]]))
                    elif kind == "t":
                        moment = parse_time(cell[1])
                        if len(cell) > 3:
                            moment = moment.replace(microsecond=1000 * cell[3])
                        status = worksheet.write_datetime(y, x, moment, formats.get(TIME_FORMATS[cell[2]]))
                    else:
                        num_format = NUMBER_FORMATS[cell[1]] or "0.00"
                        status = worksheet.write_blank(y, x, None, formats.get(num_format))
                    if status not in (0, None):
                        raise ValueError("XlsxWriter refused cell %r at (%d, %d): status %r" % (cell, y, x, status))
        if pending_activation:
            workbook.worksheets()[pending_activation[0]].activate()
    finally:
        workbook.close()
    if options.get("relocate"):
        _relocate_sheet_parts(path)


def _relocate_sheet_parts(path):
    """Move the worksheet parts out of xl/worksheets/ (the second one and those behind it to xl/more/, the first one
    to xl/first.xml).  Which part is which sheet is said by xl/_rels/workbook.xml.rels, not by where a part lies or
    what it is called."""
    import zipfile

    with zipfile.ZipFile(path) as archive:
        members = [(info, archive.read(info.filename)) for info in archive.infolist()]
    renamed = {}
    for info, _ in members:
        name = info.filename
        if name.startswith("xl/worksheets/sheet") and name.endswith(".xml"):
            number = name[len("xl/worksheets/sheet"):-len(".xml")]
            renamed[name] = "xl/first.xml" if number == "1" else "xl/more/part%s.xml" % number
    with zipfile.ZipFile(path, "w", zipfile.ZIP_DEFLATED) as archive:
        for info, content in members:
            name = info.filename
            if name in ("xl/_rels/workbook.xml.rels", "[Content_Types].xml"):
                text = content.decode("utf-8")
                for old, new in renamed.items():
                    if name.endswith(".rels"):
                        text = text.replace('Target="%s"' % old[len("xl/"):], 'Target="%s"' % new[len("xl/"):])
                    else:
                        text = text.replace('PartName="/%s"' % old, 'PartName="/%s"' % new)
                content = text.encode("utf-8")
            archive.writestr(renamed.get(name, name), content)


def write_text_table(path, rows, sheet=1, other_sheets=None):
    """
    Write the text table ``rows`` (cells are ``str``) as sheet number ``sheet`` (1-based) of a new workbook; the
    other sheets are filled from ``other_sheets`` (a list of text tables) or hold a single marker cell.
    """
    assert sheet >= 1
    others = list(other_sheets or [])
    sheets = []
    for index in range(1, sheet):
        sheets.append(others.pop(0) if others else [["(sheet %d)" % index]])
    sheets.append(rows)
    sheets.extend(others)
    write_workbook(path, sheets)


def text_table(rows):
    """The table of texts stored for the text table ``rows``: cut to the bounding box and padded with ''."""
    height, width = bounding_box(rows)
    result = []
    for row in rows[:height]:
        cells = [cell if isinstance(cell, str) else (cell[1] if kind_of(cell) == "s" else "") for cell in row[:width]]
        result.append(cells + [""] * (width - len(cells)))
    return result


def selftest():
    """
    Problems with the format lists (a date format xlrd does not take for a date, ...) found by writing one small
    workbook and looking at it with xlrd directly (cutplace is not involved).  Empty list: all fine.
    """
    import os
    import shutil
    import tempfile

    import xlrd

    problems = []
    folder = tempfile.mkdtemp(prefix="encxlsx-")
    try:
        for date_1904 in (False, True):
            path = os.path.join(folder, "selftest%d.xlsx" % date_1904)
            rows = [
                [["n", 1234.5, f] for f in range(len(NUMBER_FORMATS))],
                [["d", "2001-02-03 04:05:06", f] for f in range(len(DATE_FORMATS))],
                [["t", "04:05:06", f] for f in range(len(TIME_FORMATS))],
                [["b", True], ["s", " =x "], ["k", 2], ["s", "end"]],
            ]
            write_workbook(path, [rows, [["two"]]], {"date_1904": date_1904})
            with open(os.devnull, "w") as devnull:
                book = xlrd.open_workbook(path, logfile=devnull)
            if book.nsheets != 2:
                problems.append("expected 2 sheets, found %d" % book.nsheets)
            if book.datemode != int(date_1904):
                problems.append("datemode %r for date_1904=%r" % (book.datemode, date_1904))
            sheet = book.sheet_by_index(0)
            for y, expected_type in ((0, xlrd.XL_CELL_NUMBER), (1, xlrd.XL_CELL_DATE), (2, xlrd.XL_CELL_DATE)):
                for x in range(len(rows[y])):
                    if sheet.cell(y, x).ctype != expected_type:
                        problems.append("cell %r is read by xlrd with type %d instead of %d" % (
                            rows[y][x], sheet.cell(y, x).ctype, expected_type))
            if sheet.cell(3, 1).value != " =x ":
                problems.append("string cell read as %r" % (sheet.cell(3, 1).value,))
    finally:
        shutil.rmtree(folder, ignore_errors=True)
    return problems
