"""Coverage-guided fuzz target (atheris) for C10: a CID built from fuzzed cells.

Run as a script:  python -m vlib.fuzz_cid <out.json> -runs=N -seed=S [corpus dir]
Bytes are decoded into a CID (list of rows) by a small structure-aware layer: a valid base CID of one of four data
formats in which 1-3 cells are replaced by fuzzed text (raw UTF-8 or a token sequence from a vocabulary of cutplace
syntax fragments).  Oracle inside the target: Cid.read either succeeds or raises errors.InterfaceError; anything
else is written to <out.json> and raised.

Harness safety: the rule cell of a DistinctCount check is never fuzzed (the check evals it) and fuzzed text never
reaches a check-type cell, so no fuzzed text can become such a rule; the rule of a RegEx field is fuzzed only
without nested quantifiers (a pattern containing a quantified group is skipped) and with an empty example.
"""
import json
import re
import sys

BASES = {
    "delimited": [
        ["D", "Format", "Delimited"], ["D", "Header", "1"], ["D", "Item delimiter", ";"], ["D", "Encoding", "utf-8"],
        ["D", "Allowed characters", "32..."], ["D", "Decimal separator", ","], ["D", "Thousands separator", "."],
    ],
    "fixed": [["D", "Format", "Fixed"], ["D", "Line delimiter", "LF"], ["D", "Encoding", "cp1252"]],
    "excel": [["D", "Format", "Excel"], ["D", "Sheet", "2"], ["D", "Header", "1"]],
    "ods": [["D", "Format", "ODS"], ["D", "Sheet", "1"]],
}
FIELDS = [
    ["F", "id", "12", "", "1...5", "Integer", "0...99999"],
    ["F", "amount", "", "X", "", "Decimal", "0...999.99"],
    ["F", "color", "red", "", "", "Choice", "red, green, blue"],
    ["F", "kind", "", "", "", "Constant", "K"],
    ["F", "day", "", "X", "", "DateTime", "DD.MM.YYYY"],
    ["F", "code", "", "X", "", "Pattern", "a*[0-9]?"],
    ["F", "tag", "", "X", "", "RegEx", "[a-z]+[0-9]*"],
    ["F", "note", "", "X", "...20", "Text", ""],
]
FIXED_LENGTHS = ["5", "8", "5", "1", "10", "4", "6", "20"]
CHECKS = [["C", "id is unique", "IsUnique", "id"], ["C", "few colors", "DistinctCount", "color < 4"]]
VOCABULARY = ["0", "1", "9", "10", "255", "-", "0x", "...", ":", "…", ",", " ", "'", '"', "\\", "\\t", "\\u00dc",
              "tab", "cr", "X", "x", "(", ")", "[", "]", "{", "}", "*", "?", "+", "|", "^", "$", ".", "%", "DD", "MM",
              "YYYY", "YY", "hh", "mm", "ss", "Integer", "Decimal", "Choice", "Text", "Pattern", "DateTime", "id",
              "color", "red", "<", ">", "=", "!", "a", "Z", "ä", "\n", "\t", "e", "E", "_", "NaN", "utf-8", "lf",
              "any", "none", "all", "minimal", "u", "r", "b", "f"]
_NESTED_QUANTIFIER = re.compile(r"\)[*+?{]")


def build(data):
    """(rows, description of what was fuzzed) or None when the bytes do not decode to a usable case."""
    if len(data) < 4:
        return None
    kind = sorted(BASES)[data[0] % 4]
    rows = [list(r) for r in BASES[kind]]
    fields = [list(f) for f in FIELDS]
    if kind == "fixed":
        for field, length in zip(fields, FIXED_LENGTHS):
            field[4] = length
            field[2] = ""
    rows += fields + [list(c) for c in CHECKS]
    n_cells = 1 + data[1] % 3
    pos = 2
    touched = []
    for _ in range(n_cells):
        if pos + 3 > len(data):
            break
        row_index = data[pos] % len(rows)
        row = rows[row_index]
        cell_index = 1 + data[pos + 1] % (len(row) - 1)
        length = 1 + data[pos + 2] % 24
        chunk = data[pos + 3:pos + 3 + length]
        pos += 3 + length
        if chunk and chunk[-1] % 2:
            text = "".join(VOCABULARY[b % len(VOCABULARY)] for b in chunk)
        else:
            text = chunk.decode("utf-8", "ignore")
        if "\x00" in text:
            continue
        # harness safety, see the module docstring
        if row[0] == "C" and (cell_index == 2 or row[2] == "DistinctCount"):
            continue
        if row[0] == "F" and cell_index == 4 and re.search(r"[0-9]{5,}|0[xX][0-9a-fA-F]{4,}|[eE_]", text):
            continue  # cutplace builds texts as long as a declared length: keep lengths small
        if row[0] == "F" and cell_index == 5:
            continue  # the type cell decides which rule grammar applies; keep the rule / type pairing fixed
        if row[0] == "F" and row[5] == "RegEx" and cell_index == 6:
            if _NESTED_QUANTIFIER.search(text) or len(text) > 30:
                continue
            row[2] = ""
        if row[0] == "F" and row[5] == "RegEx" and cell_index == 2:
            continue
        row[cell_index] = text
        touched.append("%s.%d" % (row[0], cell_index))
    if not touched:
        return None
    return rows, kind + ":" + "+".join(touched)


def main():
    out_path = sys.argv[1]
    argv = [sys.argv[0]] + sys.argv[2:]
    import atheris

    with atheris.instrument_imports(include=["cutplace"]):
        from vlib import repo  # noqa: F401
        from cutplace import errors, interface

    stats = {"executions": 0, "cases": 0, "loaded": 0, "refused": 0}

    def target(data):
        stats["executions"] += 1
        if stats["executions"] % 20000 == 0:
            with open(out_path + ".stats", "w") as f:
                json.dump(stats, f)
        built = build(data)
        if built is None:
            return
        rows, what = built
        stats["cases"] += 1
        try:
            cid = interface.Cid()
            cid.read("fuzzed", rows)
            stats["loaded"] += 1
        except errors.InterfaceError:
            stats["refused"] += 1
        except Exception as error:
            import traceback

            frames = [f for f in traceback.extract_tb(error.__traceback__) if "/cutplace/" in f.filename]
            where = "%s:%s" % (frames[-1].filename.rsplit("/", 1)[-1], frames[-1].name) if frames else "?"
            with open(out_path, "w", encoding="utf-8") as f:
                json.dump({"signature": "C10|fuzz-cid-load|%s|%s" % (type(error).__name__, where),
                           "message": "Cid.read raised %s: %s (fuzzed %s)" % (type(error).__name__, error, what),
                           "case": {"fuzz_cid_rows": rows}}, f)
            raise

    atheris.Setup(argv, target)
    atheris.Fuzz()


if __name__ == "__main__":
    main()
