"""Range model: descriptions are generated FROM item lists, never parsed back.

Nothing here imports cutplace.
"""
from decimal import Decimal

from hypothesis import strategies as st

ELLIPSIS = "…"
SEPARATORS = ("...", ":", ELLIPSIS)
SYMBOLIC = {13: "cr", 12: "ff", 10: "lf", 9: "tab", 11: "vt"}
ESCAPES = {9: "\\t", 92: "\\\\", 39: "\\'", 34: '\\"', 10: "\\n", 13: "\\r", 12: "\\f", 11: "\\v"}

_BOUNDARY = []
for _k in (7, 8, 15, 16, 31, 32, 63):
    for _d in (-1, 0, 1):
        _BOUNDARY.append(2**_k + _d)
        _BOUNDARY.append(-(2**_k) + _d)
BOUNDARY_INTS = sorted(set(_BOUNDARY))

_CODE_POINTS = [9, 10, 11, 12, 13, 32, 34, 39, 44, 45, 46, 48, 57, 58, 65, 90, 92, 97, 122, 126, 127, 160, 0xDC,
                0xE4, 0x20AC, 0x2026, 0x4E2D, 0xFFFD, 0x1F600]
# code points that Unicode normalisation (NFC / NFKC) or case mapping turn into other code points or into several:
# a limit written as such a character between quotes still means exactly this code point
UNSTABLE_CODE_POINTS = [0x2126, 0x212A, 0x212B, 0x037E, 0x0340, 0x0341, 0x0343, 0x0374, 0x0387, 0x0958, 0x1F71, 0x2000,
                        0x2001, 0x2329, 0xF900, 0xFA0E, 0xFB1D, 0x2F800, 0x00B5, 0x00DF, 0x0130, 0x0131, 0x017F, 0x01C5,
                        0x03C2, 0x00AA, 0x00B2, 0x2460, 0xFF21, 0xFB01, 0x1E9E, 0x0149]


def int_limits():
    return st.one_of(
        st.integers(-20, 20),
        st.integers(8, 14),
        st.integers(-300, 300),
        st.sampled_from(BOUNDARY_INTS),
        st.sampled_from(_CODE_POINTS),
        st.sampled_from(UNSTABLE_CODE_POINTS),
        st.integers(0, 0x10FFFF),
        st.integers(-(2**70), 2**70),
    )


def _can_quote_plain(code):
    if code < 0 or code > 0x10FFFF or 0xD800 <= code <= 0xDFFF:
        return False
    ch = chr(code)
    # Everything can stand between quotes as it is, control characters included, except the backslash (it starts an
    # escape) and NUL / LF / CR (Python's tokenizer, which cutplace documents as its lexer, has no way to take them).
    return ch not in "\\\0\n\r"


@st.composite
def spell_int(draw, value, kinds=None):
    """One spelling of the integer limit ``value``; returns (text, kind)."""
    options = ["dec", "hex"]
    if 0 <= value <= 0x10FFFF and not (0xD800 <= value <= 0xDFFF):
        if _can_quote_plain(value):
            options.append("quoted")
        if value in ESCAPES or value <= 0xFFFF:
            options.append("escaped")
    if value in SYMBOLIC:
        options.append("symbolic")
    if kinds:
        options = [k for k in kinds if k in options] or ["dec"]  # kinds may repeat a spelling to give it more weight
    kind = draw(st.sampled_from(options))
    if kind == "dec":
        return str(value), kind
    if kind == "hex":
        digits = "%x" % abs(value)
        digits = "".join(c.upper() if draw(st.booleans()) else c for c in digits)
        prefix = draw(st.sampled_from(["0x", "0X"]))
        return ("-" if value < 0 else "") + prefix + digits, kind
    if kind == "quoted":
        # a quote character is written plainly between quotes of the other kind
        quote = draw(st.sampled_from({34: "'", 39: '"'}.get(value, "'\"")))
        return quote + chr(value) + quote, kind
    if kind == "escaped":
        quote = draw(st.sampled_from("'\""))
        choices = []
        if value in ESCAPES:
            esc = ESCAPES[value]
            # \' inside "..." and \" inside '...' are both fine for Python
            choices.append(esc)
        if value <= 0xFF:
            choices.append("\\x%02x" % value)
        choices.append("\\u%04x" % value)
        return quote + draw(st.sampled_from(choices)) + quote, kind
    if kind == "symbolic":
        name = SYMBOLIC[value]
        return "".join(c.upper() if draw(st.booleans()) else c for c in name), kind
    raise AssertionError(kind)


@st.composite
def item_lists(draw, limits, max_items=4):
    """Non-overlapping items over strictly increasing cut points.

    Returns list of [lo, hi] (None = open) in a drawn order.
    """
    n_items = draw(st.integers(1, max_items))
    shapes = [draw(st.sampled_from(["single", "closed", "closed", "same"])) for _ in range(n_items)]
    open_low = draw(st.integers(0, 3)) == 0
    open_high = draw(st.integers(0, 3)) == 0
    if open_low:
        shapes[0] = "open_low"
    if open_high:
        if n_items == 1 and open_low:
            shapes[0] = draw(st.sampled_from(["open_low", "open_high"]))
        else:
            shapes[-1] = "open_high"
    needed = sum(2 if s == "closed" else 1 for s in shapes)
    points = draw(st.lists(limits, min_size=needed, max_size=needed, unique=True))
    points.sort()
    items = []
    index = 0
    for shape in shapes:
        if shape == "single":
            items.append([points[index], points[index]])
            index += 1
        elif shape == "same":
            items.append([points[index], points[index], "same"])
            index += 1
        elif shape == "closed":
            items.append([points[index], points[index + 1]])
            index += 2
        elif shape == "open_low":
            items.append([None, points[index]])
            index += 1
        else:
            items.append([points[index], None])
            index += 1
    order = draw(st.permutations(list(range(n_items))))
    return [items[i] for i in order]


def _blank(draw):
    return draw(st.sampled_from(["", "", "", " ", "  "]))


@st.composite
def int_range_cases(draw, max_items=4, limits=None, spell_kinds=None):
    items = draw(item_lists(limits or int_limits(), max_items))
    parts = []
    kinds = set()
    out_items = []
    for item in items:
        lo, hi = item[0], item[1]
        same = len(item) == 3
        out_items.append([lo, hi])
        if lo is not None and hi is not None and lo == hi and not same:
            text, kind = draw(spell_int(lo, spell_kinds))
            kinds.add(kind)
            parts.append(_blank(draw) + text + _blank(draw))
            continue
        sep = draw(st.sampled_from(SEPARATORS))
        kinds.add("sep" + {"...": "dots", ":": "colon", ELLIPSIS: "char"}[sep])
        left = right = ""
        if lo is not None:
            left, kind = draw(spell_int(lo, spell_kinds))
            kinds.add(kind)
        if hi is not None:
            right, kind = draw(spell_int(hi, spell_kinds))
            kinds.add(kind)
        parts.append(_blank(draw) + left + _blank(draw) + sep + _blank(draw) + right + _blank(draw))
    description = ",".join(parts)
    probes = set()
    finite = sorted(set(v for it in out_items for v in it if v is not None))
    for v in finite:
        probes.update((v - 1, v, v + 1))
    for a, b in zip(finite, finite[1:]):
        probes.add((a + b) // 2)
    if finite:
        probes.add(finite[0] - 1000)
        probes.add(finite[-1] + 1000)
        probes.add(finite[0] - 2**64)
        probes.add(finite[-1] + 2**64)
    # values a power of two away from a limit: where a truncated, wrapped or bucketed copy of a value would collide
    for v in finite[:4]:
        for shift in (8, 16, 32):
            probes.update((v - 2**shift, v + 2**shift))
    probes.update(draw(st.lists(st.integers(-500, 500), min_size=2, max_size=2)))
    return {"kind": "int", "description": description, "items": out_items, "probes": sorted(probes),
            "spellings": sorted(kinds)}


# code points whose quoted spelling contains a character that also means something in the range grammar (quotes,
# backslash, separators, comma, minus, hash, blank, digits, letters of symbolic names and of the hex prefix)
META_CODE_POINTS = [34, 39, 92, 0x2026, 58, 44, 46, 45, 35, 32, 48, 120, 116, 50, 60, 97, 122,
                    # typographic twins of grammar characters (what word processors and spreadsheets substitute):
                    # minus and dashes, curly quotes, two / one dot leader, middle dots, full-width comma, colon, digit
                    0x2212, 0x2010, 0x2011, 0x2012, 0x2013, 0x2014, 0x2018, 0x2019, 0x201C, 0x201D, 0x2025, 0x2024,
                    0x22EF, 0x00B7, 0xFF0C, 0xFF1A, 0xFF10, 0x02D0,
                    # characters that end a line for some text functions (str.splitlines) but not for others
                    0x0B, 0x0C, 0x1C, 0x1D, 0x1E, 0x85, 0x2028, 0x2029, 0x09, 0x7F, 0xA0, 0xFEFF]


def unstable_char_range_cases(max_items=3):
    """Ranges whose limits are characters that normalisation or case mapping would change, mostly written literally."""
    return int_range_cases(max_items, st.sampled_from(UNSTABLE_CODE_POINTS),
                           ("quoted", "quoted", "quoted", "escaped", "dec", "hex"))


def meta_char_range_cases(max_items=4):
    """Ranges over few code points, most limits quoted or escaped: exercises every pairing of quote styles, escaped
    quotes and separators inside one description."""
    return int_range_cases(max_items, st.sampled_from(META_CODE_POINTS),
                           ("quoted", "quoted", "escaped", "escaped", "dec", "hex", "symbolic"))


def dec_limits():
    return st.one_of(
        st.decimals(min_value=-50, max_value=50, places=0),
        st.decimals(min_value=-50, max_value=50, places=1),
        st.decimals(min_value=-1000, max_value=1000, places=2),
        st.decimals(min_value=-10, max_value=10, places=3),
        st.decimals(min_value=-(10**18), max_value=10**18, places=3),
        # more digits than the default context of the decimal module keeps (28): limits are exact whatever their size
        st.decimals(min_value=-(10**26), max_value=10**26, places=6),
        st.decimals(min_value=-(10**19), max_value=10**19, places=12),
    )


def spell_dec(value):
    """Plain notation, never starting or ending with '.'."""
    text = format(value, "f")
    if text.startswith("-0") and value == 0:
        text = text[1:]
    return text


@st.composite
def dec_range_cases(draw, max_items=4):
    raw = draw(item_lists(dec_limits().map(lambda d: d + 0), max_items))
    parts = []
    kinds = set(["decimal"])
    out_items = []
    max_places = 0
    for item in raw:
        lo, hi = item[0], item[1]
        same = len(item) == 3
        out_items.append([None if lo is None else spell_dec(lo), None if hi is None else spell_dec(hi)])
        for v in (lo, hi):
            if v is not None:
                max_places = max(max_places, max(0, -v.as_tuple().exponent))
        if lo is not None and hi is not None and lo == hi and not same:
            parts.append(_blank(draw) + spell_dec(lo) + _blank(draw))
            continue
        sep = draw(st.sampled_from(SEPARATORS))
        kinds.add("sep" + {"...": "dots", ":": "colon", ELLIPSIS: "char"}[sep])
        left = "" if lo is None else spell_dec(lo)
        right = "" if hi is None else spell_dec(hi)
        parts.append(_blank(draw) + left + _blank(draw) + sep + _blank(draw) + right + _blank(draw))
    description = ",".join(parts)
    step = Decimal(1).scaleb(-(max_places + 1))
    probes = set()
    finite = sorted(set(Decimal(v) for it in out_items for v in it if v is not None))
    import decimal

    with decimal.localcontext() as context:
        context.prec = 120  # the probes are exact whatever the number of digits
        tiny = Decimal(1).scaleb(-40)  # closer to a limit than any fixed number of significant digits resolves
        for v in finite:
            probes.update((v - step, v, v + step, v - 1, v + 1, v - tiny, v + tiny))
        for a, b in zip(finite, finite[1:]):
            probes.add((a + b) / 2)
        if finite:
            probes.add(finite[0] - 1000)
            probes.add(finite[-1] + 1000)
    for extra in draw(st.lists(st.decimals(min_value=-100, max_value=100, places=2), min_size=2, max_size=2)):
        probes.add(extra)
    # zero in its signed spellings: equal to 0 whatever the sign says (a set would merge them: kept aside)
    signed_zeros = ["-0", "-0.0", "-0.00", "0.000", "-0E+2"]
    return {"kind": "dec", "description": description, "items": out_items,
            "probes": [format(p, "f") for p in sorted(probes)] + signed_zeros, "spellings": sorted(kinds)}


# -- reference semantics -----------------------------------------------------
def member(items, value):
    for lo, hi in items:
        if (lo is None or value >= lo) and (hi is None or value <= hi):
            return True
    return False


def overall_limits(items):
    lows = [lo for lo, _ in items]
    highs = [hi for _, hi in items]
    lower = None if any(lo is None for lo in lows) else min(lows)
    upper = None if any(hi is None for hi in highs) else max(highs)
    return lower, upper
