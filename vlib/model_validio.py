"""Reference model of validating a table under a CID spec.  No cutplace import.

cid spec: {"fmt": fmt, "fields": [field specs], "checks": [check specs]}
check spec: {"desc": str, "type": "IsUnique", "rule": "a, b", "keys": ["a", "b"]}
          | {"desc": str, "type": "DistinctCount", "rule": "a < 3", "field": "a", "op": "<", "n": 3}

predict(spec, rows, validate_until=None) ->
    {"outcomes": [per input row: None (header) | ("row", row) | ("unvalidated", row)
                                 | ("error", cls, line, cell|None, field|None, see_also_line|None) | ("neutral",)],
     "end": "ok" | ("check-error", desc) | "neutral", "accepted": int, "rejected": int, "tainted": bool}
"""
from vlib import model_fields

OPS = {
    "<": lambda a, b: a < b, "<=": lambda a, b: a <= b, "==": lambda a, b: a == b,
    "!=": lambda a, b: a != b, ">=": lambda a, b: a >= b, ">": lambda a, b: a > b,
}


def row_verdict(spec, row):
    """("ok",) | ("count",) | ("cell", index, field name) | ("neutral",) for the cells of one row."""
    fields = spec["fields"]
    if len(row) != len(fields):
        return ("count",)
    fmt = spec["fmt"]
    for index, (field, cell) in enumerate(zip(fields, row)):
        verdict = model_fields.verdict(field, fmt, cell)
        if verdict[0] == "neutral":
            return ("neutral",)
        if verdict[0] == "reject":
            return ("cell", index, field["name"])
    return ("ok",)


class CheckState(object):
    def __init__(self, spec):
        self.checks = spec["checks"]
        self.names = [f["name"] for f in spec["fields"]]
        self.reset()

    def reset(self):
        self.unique = {}
        self.distinct = {}
        for check in self.checks:
            if check["type"] == "IsUnique":
                self.unique[check["desc"]] = {}
            else:
                self.distinct[check["desc"]] = set()

    def check_row(self, row, line):
        """None if all checks pass, else ("check", desc, see_also_line).

        The statement's reading: a key counts as seen only when its row was ACCEPTED ("an earlier accepted row ... has
        the same values"), so the keys of a row are registered once no uniqueness check has vetoed it; a distinct-count
        check counts every row that reaches it (all checks declared before it passed)."""
        pending = []
        for check in self.checks:
            if check["type"] == "IsUnique":
                key = tuple(row[self.names.index(name)] for name in check["keys"])
                seen = self.unique[check["desc"]]
                if key in seen:
                    return ("check", check["desc"], seen[key])
                pending.append((seen, key))
            else:
                self.distinct[check["desc"]].add(row[self.names.index(check["field"])])
        for seen, key in pending:
            seen[key] = line
        return None

    def at_end(self):
        for check in self.checks:
            if check["type"] == "DistinctCount":
                count = len(self.distinct[check["desc"]])
                if not OPS[check["op"]](count, check["n"]):
                    return ("check-error", check["desc"])
        return "ok"


def predict(spec, rows, validate_until=None, state=None):
    header = spec["fmt"].get("header", 0)
    state = state or CheckState(spec)
    state.reset()
    outcomes = []
    accepted = rejected = 0
    tainted = False
    for line, row in enumerate(rows):
        number = line + 1
        if number <= header:
            outcomes.append(None)
            continue
        if validate_until is not None and number > validate_until:
            outcomes.append(("unvalidated", row))
            accepted += 1
            continue
        if tainted:
            outcomes.append(("neutral",))
            continue
        verdict = row_verdict(spec, row)
        if verdict[0] == "neutral":
            outcomes.append(("neutral",))
            tainted = True  # bookkeeping of the checks is unknown from here on
            continue
        if verdict[0] == "count":
            outcomes.append(("error", "DataError", line, None, None, None))
            rejected += 1
            continue
        if verdict[0] == "cell":
            outcomes.append(("error", "FieldValueError", line, verdict[1], verdict[2], None))
            rejected += 1
            continue
        vetoed = state.check_row(row, line)
        if vetoed is not None:
            outcomes.append(("error", "CheckError", line, None, None, vetoed[2]))
            rejected += 1
            continue
        outcomes.append(("row", row))
        accepted += 1
    end = "neutral" if tainted else state.at_end()
    return {"outcomes": outcomes, "end": end, "accepted": accepted, "rejected": rejected, "tainted": tainted}
