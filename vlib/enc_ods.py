"""Independent OpenDocument spreadsheet (ODS) encoder for tables of text cells.

Does not import cutplace.  ``write(path, sheets, options)`` stores 1..3 sheets (each a list of rows, each row a list
of ``str``) as a zip archive with ``mimetype``, ``META-INF/manifest.xml`` and ``content.xml``.  Every optional way
ODF offers to encode the same logical table can be switched on or off independently (see ``DEFAULTS``).

What the encoder guarantees, whatever the switches: the ODF reading of what it writes is exactly the given table.
ODF 1.2 part 1, 6.1.2/6.1.3: inside a paragraph literal tab / CR / LF count as blanks, leading and trailing blanks are
dropped and runs of blanks collapse into one; blanks that matter are ``<text:s text:c="n"/>``, a tab is
``<text:tab/>``, a line break ``<text:line-break/>``; a cell with several ``text:p`` holds the paragraphs joined by a
line break.  Therefore a *literal* blank is only ever written directly after a literal non-blank character and
directly before a literal non-blank character or the ``text:s`` that continues its run ("this element shall be used
to represent the second and all following blanks of a sequence", 6.1.3) of the same paragraph; every other blank
(leading, trailing, next to a tab or line break) is a ``text:s``, tabs and line breaks are always elements (or
paragraph boundaries), CR and other control characters are refused.  ``decode`` is a small reference reader of
exactly these rules used by the checks as a self-test of the encoder (it refuses any paragraph whose reading would
depend on how a consumer collapses white space).

A table cannot store trailing empty cells or rows distinctly from their absence (a sheet is an unbounded grid), and
the ODF schema wants >= 1 row per table and >= 1 cell per row.  ``canon`` strips trailing empty cells and rows; it is
the comparison the checks use.  With ``bare_empty`` off, an empty row is written as one empty cell and an empty table
as one row with one empty cell (what office suites write); with it on they are written without children.
"""
import io
import zipfile
from xml.etree import ElementTree

MIMETYPE = "application/vnd.oasis.opendocument.spreadsheet"
NS = {
    "office": "urn:oasis:names:tc:opendocument:xmlns:office:1.0",
    "table": "urn:oasis:names:tc:opendocument:xmlns:table:1.0",
    "text": "urn:oasis:names:tc:opendocument:xmlns:text:1.0",
    "style": "urn:oasis:names:tc:opendocument:xmlns:style:1.0",
}
ENCODINGS = ("utf-8", "utf-8-nodecl", "utf-8-bom", "utf-16", "utf-16-be", "iso-8859-1", "us-ascii")
SPAN_MODES = ("none", "whole", "alt", "nested")

DEFAULTS = {
    "col_runs": False,  # adjacent equal cells -> table:number-columns-repeated
    "row_runs": False,  # adjacent equal rows -> table:number-rows-repeated
    "ws_all": False,  # every blank as text:s (otherwise only those a literal blank cannot express)
    "ws_runs_whole": False,  # a run of >= 2 blanks entirely as text:s (otherwise first blank literal where possible)
    "ws_count": True,  # a run of n blanks as one <text:s text:c="n"/> (otherwise n times <text:s/>)
    "span_mode": "none",  # none | whole | alt | nested
    "span_len": 1,  # atoms per chunk for alt / nested
    "span_first": True,  # alt: the first chunk is a span (otherwise the second)
    "paragraphs": False,  # line break -> new text:p (otherwise text:line-break)
    "empty_p": False,  # empty cell written with an empty <text:p/>
    "encoding": "utf-8",
    "value_type": True,  # office:value-type="string" on non-empty cells
    "quote_entities": False,  # " and ' as &quot; / &apos;
    "indent": False,  # line breaks + indentation between the non-text elements
    "indent_cells": False,  # with indent: also between a cell element and its paragraphs (pretty-printed XML)
    # rows may stand in containers: the first row element in table:table-header-rows ("rows to repeat when
    # printing"), the following ones in a (nested) table:table-row-group (outline groups), the rest in table:table-rows
    "row_containers": "none",  # none | header | group | all
    "deflate": True,  # content.xml deflated (otherwise stored)
    "bare_empty": False,  # rows without cells / tables without rows written without children
    "annotations": False,  # every non-empty cell carries a comment (office:annotation with a paragraph of its own)
    "unnamed": False,  # tables without table:name
    "subtables": False,  # every non-empty cell also holds a nested table (table:is-sub-table) with a row of its own
}


def options(**changes):
    result = dict(DEFAULTS)
    for key, value in changes.items():
        if key not in DEFAULTS:
            raise ValueError("unknown encoder option %r" % key)
        result[key] = value
    return result


# -- logical helpers ---------------------------------------------------------------
def canon(table):
    """Table without trailing empty cells (per row) and without trailing empty rows."""
    rows = []
    for row in table:
        row = list(row)
        while row and row[-1] == "":
            row.pop()
        rows.append(row)
    while rows and not rows[-1]:
        rows.pop()
    return rows


def check_text(text):
    if not isinstance(text, str):
        raise ValueError("cell must be str: %r" % (text,))
    for ch in text:
        code = ord(ch)
        if (code < 0x20 and ch not in "\t\n") or 0xD800 <= code <= 0xDFFF or code in (0xFFFE, 0xFFFF):
            raise ValueError("character %r cannot be stored in an ODF text cell" % ch)


# -- paragraph content ---------------------------------------------------------------
def _atoms(paragraph, opts):
    """Atoms of one paragraph (no line feed inside unless written as line-break):
    ("c", char) literal character, ("s", n) n blanks as text:s, ("tab",), ("lb",)."""
    atoms = []
    n = len(paragraph)
    i = 0
    while i < n:
        ch = paragraph[i]
        if ch == "\t":
            atoms.append(("tab",))
            i += 1
        elif ch == "\n":
            atoms.append(("lb",))
            i += 1
        elif ch == " ":
            j = i
            while j < n and paragraph[j] == " ":
                j += 1
            count = j - i
            before_ok = i > 0 and paragraph[i - 1] not in " \t\n"
            after_ok = j < n and paragraph[j] not in " \t\n"
            literal = 0
            if before_ok and after_ok and not opts["ws_all"] and not (count > 1 and opts["ws_runs_whole"]):
                # one literal blank after a literal non-blank character; what follows is a literal non-blank
                # character or, in a run, the text:s for "the second and all following" blanks (ODF 6.1.3)
                literal = 1
                atoms.append(("c", " "))
            rest = count - literal
            if rest:
                if opts["ws_count"]:
                    atoms.append(("s", rest))
                else:
                    atoms.extend([("s", 1)] * rest)
            i = j
        else:
            atoms.append(("c", ch))
            i += 1
    return atoms


def _atom_text(atom):
    kind = atom[0]
    if kind == "c":
        return atom[1]
    if kind == "s":
        return " " * atom[1]
    if kind == "tab":
        return "\t"
    return "\n"


def _escape(ch, opts):
    if ch == "&":
        return "&amp;"
    if ch == "<":
        return "&lt;"
    if ch == ">":
        return "&gt;"
    if opts["quote_entities"]:
        if ch == '"':
            return "&quot;"
        if ch == "'":
            return "&apos;"
    return ch


def _atom_xml(atom, opts):
    kind = atom[0]
    if kind == "c":
        return _escape(atom[1], opts)
    if kind == "s":
        return "<text:s/>" if atom[1] == 1 else '<text:s text:c="%d"/>' % atom[1]
    if kind == "tab":
        return "<text:tab/>"
    return "<text:line-break/>"


def _atom_piece_kind(atom, context):
    kind = atom[0]
    if kind == "c" or context == "span":
        return context  # whatever sits inside a span is lost or kept with that span
    if kind == "s":
        return "s"
    if kind == "tab":
        return "tab"
    return "line-break"


def _paragraph(paragraph, opts):
    """(xml of the content of one text:p, pieces).  pieces: [(kind, text contributed)] in document order; kind names
    the construct *at the level of the children of text:p* that carries the text: plain (character data of text:p
    before any child element), tail (character data of text:p after a child element), span (anything inside a
    text:span child), s, tab, line-break (such an element as a direct child)."""
    atoms = _atoms(paragraph, opts)
    mode = opts["span_mode"]
    size = max(1, int(opts["span_len"]))
    xml = []
    pieces = []
    seen_child = [False]

    def emit(chunk, in_span):
        for atom in chunk:
            context = "span" if in_span else ("tail" if seen_child[0] else "plain")
            xml.append(_atom_xml(atom, opts))
            pieces.append((_atom_piece_kind(atom, context), _atom_text(atom)))
            if atom[0] != "c" and not in_span:
                seen_child[0] = True

    if not atoms or mode == "none":
        emit(atoms, False)
    elif mode == "whole":
        xml.append("<text:span>")
        emit(atoms, True)
        xml.append("</text:span>")
        seen_child[0] = True
    elif mode == "alt":
        chunks = [atoms[i:i + size] for i in range(0, len(atoms), size)]
        for index, chunk in enumerate(chunks):
            in_span = (index % 2 == 0) == bool(opts["span_first"])
            if in_span:
                xml.append("<text:span>")
                emit(chunk, True)
                xml.append("</text:span>")
                seen_child[0] = True
            else:
                emit(chunk, False)
    elif mode == "nested":
        # <span> head <span> middle </span> rest </span>
        head, middle, rest = atoms[:size], atoms[size:2 * size], atoms[2 * size:]
        xml.append("<text:span>")
        emit(head, True)
        if middle:
            xml.append('<text:span text:style-name="T1">')
            emit(middle, True)
            xml.append("</text:span>")
        emit(rest, True)
        xml.append("</text:span>")
        seen_child[0] = True
    else:
        raise ValueError("unknown span_mode %r" % mode)
    return "".join(xml), pieces


def _cell_content(text, opts):
    """(xml of the children of table:table-cell, pieces)."""
    check_text(text)
    if text == "":
        if opts["empty_p"]:
            return "<text:p/>", [("empty-paragraph", "")]
        return "", []
    paragraphs = text.split("\n") if opts["paragraphs"] else [text]
    xml = []
    pieces = []
    for index, paragraph in enumerate(paragraphs):
        if index:
            pieces.append(("paragraphs", "\n"))
        inner, inner_pieces = _paragraph(paragraph, opts)
        xml.append("<text:p>%s</text:p>" % inner if inner else "<text:p/>")
        pieces.extend(inner_pieces)
    merged = []
    for kind, part in pieces:  # adjacent pieces of one kind read better as one
        if merged and merged[-1][0] == kind and kind != "paragraphs":
            merged[-1] = (kind, merged[-1][1] + part)
        else:
            merged.append((kind, part))
    return "".join(xml), merged


# -- document ----------------------------------------------------------------------------
def _runs(items, enabled):
    """[(count, item)] of adjacent equal items (count always 1 when not enabled)."""
    result = []
    for item in items:
        if enabled and result and result[-1][1] == item:
            result[-1][0] += 1
        else:
            result.append([1, item])
    return [(count, item) for count, item in result]


def content_xml(sheets, opts=None, fault=None):
    """(xml text without declaration, layout).

    layout: per sheet a list of row elements {"repeat": n, "cells": [{"repeat": n, "text": str, "pieces": [..]}]}.
    fault (optional): {"kind": "col-repeat" | "row-repeat", "sheet": i, "row": row element index,
    "cell": cell element index, "value": text} overrides one repeat attribute with an arbitrary text.
    """
    opts = options(**(opts or {}))
    # no sheet at all is a well-formed document too (an empty office:spreadsheet element): every sheet is missing then
    nl = "\n" if opts["indent"] else ""

    def ind(level):
        return (" " * level) if opts["indent"] else ""

    out = []
    out.append(
        '<office:document-content xmlns:office="%(office)s" xmlns:style="%(style)s" xmlns:text="%(text)s" '
        'xmlns:table="%(table)s" office:version="1.2">' % NS
    )
    out.append(nl + ind(1) + "<office:scripts/>")
    out.append(nl + ind(1) + "<office:automatic-styles>")
    out.append(nl + ind(2) + '<style:style style:name="T1" style:family="text"/>')
    out.append(nl + ind(1) + "</office:automatic-styles>")
    out.append(nl + ind(1) + "<office:body>" + nl + ind(2) + "<office:spreadsheet>")
    layout = []
    fault_used = False
    for sheet_index, table in enumerate(sheets):
        width = max([len(row) for row in table] + [1])
        if opts.get("unnamed"):
            out.append(nl + ind(3) + "<table:table>")
        else:
            out.append(nl + ind(3) + '<table:table table:name="Sheet%d">' % (sheet_index + 1))
        if width > 1:
            out.append(nl + ind(4) + '<table:table-column table:number-columns-repeated="%d"/>' % width)
        else:
            out.append(nl + ind(4) + "<table:table-column/>")
        sheet_layout = []
        rows = [list(row) for row in table]
        if not rows and not opts["bare_empty"]:
            rows = [[]]
        for row_index, (row_count, row) in enumerate(_runs(rows, opts["row_runs"])):
            cells = list(row)
            if not cells and not opts["bare_empty"]:
                cells = [""]
            row_attr = ""
            if row_count > 1:
                row_attr = ' table:number-rows-repeated="%d"' % row_count
            if fault and fault["kind"] == "row-repeat" and fault["sheet"] == sheet_index and fault["row"] == row_index:
                row_attr = ' table:number-rows-repeated="%s"' % _escape_attr(fault["value"])
                fault_used = True
            cell_layouts = []
            cell_xml = []
            for cell_index, (cell_count, text) in enumerate(_runs(cells, opts["col_runs"])):
                inner, pieces = _cell_content(text, opts)
                if inner and opts.get("annotations"):
                    # a comment the way spreadsheet applications store it: in front of the cell's own paragraphs
                    inner = ("<office:annotation><text:p>a comment</text:p><text:p>of two paragraphs</text:p>"
                             "</office:annotation>") + inner
                if inner and opts.get("subtables"):
                    # a table inside the cell: its rows and cells are not rows and cells of the sheet
                    inner += ('<table:table table:is-sub-table="true"><table:table-column/><table:table-row>'
                              '<table:table-cell office:value-type="string"><text:p>inner cell</text:p>'
                              '</table:table-cell><table:table-cell/></table:table-row><table:table-row>'
                              '<table:table-cell><text:p>inner row 2</text:p></table:table-cell></table:table-row>'
                              '</table:table>')
                attr = ""
                if cell_count > 1:
                    attr += ' table:number-columns-repeated="%d"' % cell_count
                if (fault and fault["kind"] == "col-repeat" and fault["sheet"] == sheet_index
                        and fault["row"] == row_index and fault["cell"] == cell_index):
                    attr = ' table:number-columns-repeated="%s"' % _escape_attr(fault["value"])
                    fault_used = True
                if text != "" and opts["value_type"]:
                    attr += ' office:value-type="string"'
                if inner and opts["indent"] and opts.get("indent_cells"):
                    # white space between the cell element and its paragraphs is layout, not content
                    spaced = inner.replace("</text:p><text:p", "</text:p>" + nl + ind(6) + "<text:p")
                    cell_xml.append(nl + ind(5) + "<table:table-cell%s>%s%s%s</table:table-cell>" % (
                        attr, nl + ind(6), spaced, nl + ind(5)))
                elif inner:
                    cell_xml.append(nl + ind(5) + "<table:table-cell%s>%s</table:table-cell>" % (attr, inner))
                else:
                    cell_xml.append(nl + ind(5) + "<table:table-cell%s/>" % attr)
                cell_layouts.append({"repeat": cell_count, "text": text, "pieces": pieces})
            containers = opts.get("row_containers", "none")
            opened, closed = "", ""
            if containers in ("header", "all") and row_index == 0:
                opened, closed = "<table:table-header-rows>", "</table:table-header-rows>"
            elif containers in ("group", "all") and row_index in (1, 2):
                opened = "<table:table-row-group>" + ("<table:table-row-group>" if row_index == 2 else "")
                closed = ("</table:table-row-group>" if row_index == 2 else "") + "</table:table-row-group>"
            elif containers == "all" and row_index >= 3:
                opened, closed = "<table:table-rows>", "</table:table-rows>"
            if opened:
                out.append(nl + ind(4) + opened)
            if cell_xml:
                out.append(nl + ind(4) + "<table:table-row%s>" % row_attr)
                out.extend(cell_xml)
                out.append(nl + ind(4) + "</table:table-row>")
            else:
                out.append(nl + ind(4) + "<table:table-row%s/>" % row_attr)
            if closed:
                out.append(nl + ind(4) + closed)
            sheet_layout.append({"repeat": row_count, "cells": cell_layouts})
        out.append(nl + ind(3) + "</table:table>")
        layout.append(sheet_layout)
    out.append(nl + ind(2) + "</office:spreadsheet>" + nl + ind(1) + "</office:body>" + nl)
    out.append("</office:document-content>")
    if fault and not fault_used:
        raise ValueError("fault %r does not address an element of the document" % (fault,))
    return "".join(out), layout


def _escape_attr(text):
    return text.replace("&", "&amp;").replace("<", "&lt;").replace('"', "&quot;")


def encode_xml(xml_text, encoding):
    """Bytes of a document: XML declaration + text in ``encoding``; characters the encoding lacks become numeric
    character references (markup is ASCII, so only character data is affected)."""
    if encoding == "utf-8":
        return ('<?xml version="1.0" encoding="UTF-8"?>\n' + xml_text).encode("utf-8")
    if encoding == "utf-8-nodecl":
        return xml_text.encode("utf-8")
    if encoding == "utf-8-bom":
        return b"\xef\xbb\xbf" + ('<?xml version="1.0" encoding="UTF-8"?>\n' + xml_text).encode("utf-8")
    if encoding == "utf-16":
        return b"\xff\xfe" + ('<?xml version="1.0" encoding="UTF-16"?>\n' + xml_text).encode("utf-16-le")
    if encoding == "utf-16-be":
        return b"\xfe\xff" + ('<?xml version="1.0" encoding="UTF-16"?>\n' + xml_text).encode("utf-16-be")
    if encoding == "iso-8859-1":
        return ('<?xml version="1.0" encoding="ISO-8859-1"?>\n' + xml_text).encode("iso-8859-1", "xmlcharrefreplace")
    if encoding == "us-ascii":
        return ('<?xml version="1.0" encoding="US-ASCII"?>\n' + xml_text).encode("ascii", "xmlcharrefreplace")
    raise ValueError("unknown encoding %r" % encoding)


MANIFEST_XML = (
    '<?xml version="1.0" encoding="UTF-8"?>\n'
    '<manifest:manifest xmlns:manifest="urn:oasis:names:tc:opendocument:xmlns:manifest:1.0" '
    'manifest:version="1.2">'
    '<manifest:file-entry manifest:full-path="/" manifest:version="1.2" manifest:media-type="%s"/>'
    '<manifest:file-entry manifest:full-path="content.xml" manifest:media-type="text/xml"/>'
    "</manifest:manifest>" % MIMETYPE
).encode("utf-8")

_FIXED_DATE = (2020, 1, 1, 0, 0, 0)  # archives are a function of their content only


def archive(content_bytes, deflate=True, content_name="content.xml"):
    """Bytes of the zip archive; ``content_bytes=None`` leaves content.xml out."""
    buffer = io.BytesIO()
    with zipfile.ZipFile(buffer, "w") as z:
        z.writestr(zipfile.ZipInfo("mimetype", _FIXED_DATE), MIMETYPE.encode("ascii"), zipfile.ZIP_STORED)
        if content_bytes is not None:
            z.writestr(zipfile.ZipInfo(content_name, _FIXED_DATE), content_bytes,
                       zipfile.ZIP_DEFLATED if deflate else zipfile.ZIP_STORED)
        z.writestr(zipfile.ZipInfo("META-INF/manifest.xml", _FIXED_DATE), MANIFEST_XML, zipfile.ZIP_DEFLATED)
    return buffer.getvalue()


def build(sheets, opts=None, fault=None):
    """{"xml": text, "content": bytes, "archive": bytes, "layout": layout}"""
    opts = options(**(opts or {}))
    xml_text, layout = content_xml(sheets, opts, fault)
    content = encode_xml(xml_text, opts["encoding"])
    return {"xml": xml_text, "content": content, "archive": archive(content, opts["deflate"]), "layout": layout}


def write(path, sheets, opts=None, fault=None):
    """Write ``sheets`` as ODS to ``path``; returns the layout (what was written, element by element)."""
    built = build(sheets, opts, fault)
    with open(path, "wb") as f:
        f.write(built["archive"])
    return built["layout"]


def as_written(sheet_layout):
    """The table a reader returns that expands runs and keeps every written cell."""
    rows = []
    for row in sheet_layout:
        cells = []
        for cell in row["cells"]:
            cells.extend([cell["text"]] * cell["repeat"])
        for _ in range(row["repeat"]):
            rows.append(list(cells))
    return rows


def tag_boundaries(xml_text):
    """Offsets in ``xml_text`` just before each '<' and just after each '>' (0 < offset < len)."""
    result = set()
    for index, ch in enumerate(xml_text):
        if ch == "<" and index > 0:
            result.add(index)
        elif ch == ">" and index + 1 < len(xml_text):
            result.add(index + 1)
    return sorted(result)


# -- reference reader (self-test of the encoder) --------------------------------------------
class Ambiguous(ValueError):
    pass


def _q(prefix, name):
    return "{%s}%s" % (NS[prefix], name)


def _paragraph_text(p):
    tokens = []  # ("lit", char) | ("hard", text)

    def walk(element):
        for ch in element.text or "":
            tokens.append(("lit", ch))
        for child in element:
            if child.tag == _q("text", "s"):
                tokens.append(("hard", " " * int(child.get(_q("text", "c"), "1"))))
            elif child.tag == _q("text", "tab"):
                tokens.append(("hard", "\t"))
            elif child.tag == _q("text", "line-break"):
                tokens.append(("hard", "\n"))
            elif child.tag == _q("text", "span"):
                walk(child)
            else:
                raise Ambiguous("element %s is not part of the encoder's vocabulary" % child.tag)
            for ch in child.tail or "":
                tokens.append(("lit", ch))

    walk(p)
    result = []
    count = len(tokens)
    for index, (kind, value) in enumerate(tokens):
        if kind == "lit" and value in " \t\r\n":
            before = index > 0 and tokens[index - 1][0] == "lit" and tokens[index - 1][1] not in " \t\r\n"
            after = index + 1 < count and (
                (tokens[index + 1][0] == "lit" and tokens[index + 1][1] not in " \t\r\n")
                or (tokens[index + 1][0] == "hard" and tokens[index + 1][1].strip(" ") == "")  # text:s continues a run
            )
            if not (before and after and value == " "):
                # its reading would depend on how a consumer collapses white space: the encoder never writes this
                raise Ambiguous("literal white space %r at token %d of a paragraph" % (value, index))
        result.append(value)
    return "".join(result)


def _row_elements(element):
    """The table:table-row elements of a table in document order, wherever the format allows them to stand."""
    containers = (_q("table", "table-header-rows"), _q("table", "table-row-group"), _q("table", "table-rows"))
    for child in element:
        if child.tag == _q("table", "table-row"):
            yield child
        elif child.tag in containers:
            for row in _row_elements(child):
                yield row


def decode(content_bytes):
    """Logical tables of a content.xml (list of sheets, rows, cells) by the ODF rules named in the module text."""
    root = ElementTree.fromstring(content_bytes)
    sheets = []
    for table in root.findall("office:body/office:spreadsheet/table:table", NS):
        rows = []
        for row in _row_elements(table):
            cells = []
            for cell in row.findall("table:table-cell", NS):
                text = "\n".join(_paragraph_text(p) for p in cell.findall("text:p", NS))
                cells.extend([text] * int(cell.get(_q("table", "number-columns-repeated"), "1")))
            for _ in range(int(row.get(_q("table", "number-rows-repeated"), "1"))):
                rows.append(list(cells))
        sheets.append(rows)
    return sheets
