"""Hypothesis strategies for CID specs with per-field cell pools and for tables; rendering to data sources.

No cutplace import.  Pools hold only cells whose verdict is definite (accept / reject) by vlib.model_fields.
"""
import os

from hypothesis import strategies as st

from vlib import gen_fields, model_fields

KINDS = ("delimited", "delimited-de", "fixed", "excel", "ods")
_OPS = ("<", "<=", "==", "!=", ">=", ">")


# descriptions of checks are free text (they show up in messages): also with characters that mean something to
# %-formatting, str.format, regular expressions and the CID's own syntax
_DESCRIPTIONS = ["%s", "%s", "%s", "100%% sure: %s", "%s (%%s, %%d)", "%s {0} {}", "%s \\d+ [", "%s, \"quoted\"", "\xe4 %s",
                 # blanks at the edges are part of the text (or not - but the same wherever the CID is stored)
                 " %s", "%s ", "  %s  "]


def _pools(draw, field, fmt, n=5):
    cells = gen_fields.cells_for(draw, field, fmt, n)
    fixed = fmt["format"] == "fixed"
    accept, reject = [], []
    for cell in cells:
        if "\n" in cell or "\r" in cell:
            continue
        if fixed:
            width = field["length_items"][0][0]
            if len(cell) > width:
                continue
            cell = cell + " " * (width - len(cell))
        verdict = model_fields.verdict(field, fmt, cell)
        if verdict[0] == "accept" and cell not in accept:
            accept.append(cell)
        elif verdict[0] == "reject" and cell not in reject:
            reject.append(cell)
    return accept, reject


@st.composite
def cid_specs(draw, kinds=KINDS, max_fields=5, types=gen_fields.TYPES, max_header=2, checks="some",
              key_pool=3, max_unique=1):
    """``max_unique`` > 1 is for differential oracles only: with several IsUnique checks cutplace deviates from the
    statement the reference model follows (open finding C05|registered-by-rejected-row)."""
    kind = draw(st.sampled_from(kinds))
    header = draw(st.integers(0, max_header))
    fmt = gen_fields.format_spec(kind, header=header)
    if kind == "fixed":
        fmt["line_delimiter"] = draw(st.sampled_from(["LF", "LF", "Any", "CRLF", "CR"]))
    if kind in ("excel", "ods"):
        fmt["sheet"] = draw(st.sampled_from([None, None, 2]))
    if fmt["format"] == "delimited" and draw(st.integers(0, 2)) == 0:
        # another documented dialect; cells are rendered accordingly (gen_tables.delimited_text)
        delimiter, quote, escape = draw(st.sampled_from(DIALECTS))
        if delimiter in (fmt["decimal"], fmt["thousands"]):
            delimiter = "|"
        fmt["item_delimiter"], fmt["quote_character"], fmt["escape_character"] = delimiter, quote, escape
    # the order of the CID's rows (see cidlib.cid_rows): same meaning, another arrangement
    fmt["layout"] = draw(st.sampled_from([None, None, None, "late-properties", "early-checks", "both"]))
    n_fields = draw(st.integers(1, max_fields))
    fields = []
    for index in range(n_fields):
        name = "%s%d" % (draw(st.sampled_from(["a", "b", "key", "Val", "x_"])), index)
        if fields and draw(st.integers(0, 4)) == 0:
            # a name that differs from an earlier one only in the case of its letters: two fields all the same
            twin = draw(st.sampled_from(fields))["name"].swapcase()
            if all(twin != f["name"] for f in fields):
                name = twin
        for _ in range(4):
            field = draw(gen_fields.fields_of(name, fmt, types))
            accept, reject = _pools(draw, field, fmt)
            non_empty = [c for c in accept if c.strip()]
            if non_empty:
                break
        else:
            if kind == "fixed":
                field = {"name": name, "empty": False, "length": "3", "length_items": [[3, 3]], "type": "Text",
                         "rule": "", "model": {}}
                accept, reject = ["abc", "x  ", "yz "], ["   "]
            else:
                field = {"name": name, "empty": False, "length": "", "length_items": None, "type": "Text",
                         "rule": "", "model": {}}
                accept, reject = ["abc", "x", "yz"], [""]
        field["accept"] = accept[: max(key_pool, 1) + 2]
        field["reject"] = reject[:4]
        fields.append(field)
    check_specs = []
    if checks != "none":
        names = [f["name"] for f in fields]
        if draw(st.booleans()) or checks == "always":
            k = draw(st.integers(1, min(3, len(names))))
            keys = list(draw(st.permutations(names)))[:k]
            sep = draw(st.sampled_from([", ", ",", " , "]))
            check_specs.append({"desc": draw(st.sampled_from(_DESCRIPTIONS)) % ("unique " + "_".join(keys)),
                                "type": "IsUnique", "rule": sep.join(keys), "keys": keys})
        if max_unique > 1 and check_specs and draw(st.booleans()):
            k = draw(st.integers(1, min(2, len(names))))
            keys = list(draw(st.permutations(names)))[:k]
            if ", ".join(keys) != ", ".join(check_specs[0]["keys"]):
                check_specs.append({"desc": "also unique " + "_".join(keys), "type": "IsUnique",
                                    "rule": ", ".join(keys), "keys": keys})
        for number in range(draw(st.integers(0, 2))):
            name = draw(st.sampled_from(names))
            op = draw(st.sampled_from(_OPS))
            n = draw(st.integers(0, 4))
            blank = draw(st.sampled_from([" ", "", "  "]))
            threshold = spell_count(n, draw(st.sampled_from([0, 0, 0, 1, 2, 3, 4, 5])))
            check_specs.append({"desc": draw(st.sampled_from(_DESCRIPTIONS)) % ("count %d of %s" % (number, name)),
                                "type": "DistinctCount",
                                "rule": "%s%s%s%s%s" % (name, blank, op, blank, threshold), "field": name, "op": op,
                                "n": n})
        if draw(st.booleans()):
            check_specs.reverse()
    if fmt.get("layout") in ("early-checks", "both"):
        # each check then stands behind the last field it names: list them in the order the CID declares them
        names = [f["name"] for f in fields]
        check_specs.sort(key=lambda c: gen_fields.last_named_field(names, c["rule"]))
    return {"fmt": fmt, "fields": fields, "checks": check_specs}


def spell_count(n, style):
    """The threshold n (>= 0) written as one of the 'mathematical expressions' the documentation allows; the first
    integer of the text differs from n wherever that is possible."""
    style %= 6
    if style == 1:
        return "%d + %d" % (n // 2, n - n // 2)
    if style == 2:
        return "%d * %d" % ((2, n // 2) if n % 2 == 0 and n else (1, n))
    if style == 3:
        return "(%d)" % n
    if style == 4:
        return "%d - %d" % (n + 2, 2)
    if style == 5:
        return "2 * %d + %d" % (n // 2, n % 2)
    return "%d" % n


def check_rows(spec):
    return [["C", c["desc"], c["type"], c["rule"]] for c in spec["checks"]]


@st.composite
def tables(draw, spec, max_rows=8, ragged=True, bad=True):
    """Rows of cells from the pools; header rows of arbitrary content come first."""
    fmt = spec["fmt"]
    fields = spec["fields"]
    fixed = fmt["format"] == "fixed"
    spreadsheet = fmt["format"] in ("excel", "ods")
    rows = []
    for _ in range(fmt.get("header", 0)):
        if fixed:
            rows.append([draw(st.text("Hdr x-", min_size=f["length_items"][0][0], max_size=f["length_items"][0][0]))
                         for f in fields])
        else:
            n = draw(st.integers(1, len(fields) + (0 if spreadsheet else 1)))
            # header cells are free text: delimiters, quotes-to-be and line breaks included (one row all the same)
            row = [draw(st.text("Header cell,;9\n", min_size=0, max_size=6)) for _ in range(n)]
            if spreadsheet or True:
                row[-1] = row[-1] or "h"
            rows.append(row)
    if fmt.get("header", 0) and draw(st.integers(0, 9)) == 0:
        # a data set that ends inside its header (fewer rows than the CID declares header rows): no data rows at all
        return rows[: draw(st.integers(0, fmt["header"] - 1))]
    n_rows = draw(st.one_of(st.integers(0, max_rows), st.integers(min(3, max_rows), max_rows)))
    for _ in range(n_rows):
        row = []
        shape = draw(st.sampled_from(["ok"] * 5 + ["bad"] * 2 + ["short", "long"])) if bad else "ok"
        bad_at = draw(st.integers(0, len(fields) - 1))
        for index, field in enumerate(fields):
            pool = field["accept"]
            if shape == "bad" and field["reject"] and (index == bad_at or draw(st.integers(0, 5)) == 0):
                pool = field["reject"]
            row.append(draw(st.sampled_from(pool)))
        if ragged and not fixed:
            if shape == "short" and not spreadsheet and draw(st.integers(0, 3)) == 0:
                row = []  # an empty line
            elif shape == "short" and len(row) > 1:
                row = row[: draw(st.integers(1, len(row) - 1))]
            elif shape == "long":
                row = row + [draw(st.sampled_from(["x", "extra", "1"]))]
        rows.append(row)
    if spreadsheet:
        # neither ODS nor xlsx can store trailing empty cells / rows distinctly: keep them out of the domain
        for row in rows:
            if row[-1] == "":
                index = len(row) - 1
                pool = []
                if index < len(fields):
                    pool = [c for c in fields[index]["accept"] + fields[index]["reject"] if c != ""]
                row[-1] = pool[0] if pool else "x"
    return rows


# -- rendering -------------------------------------------------------------------------------
# (item delimiter, quote character, escape character): the defaults and other documented choices
DIALECTS = [(",", '"', '"'), (";", "'", '"'), ("|", '"', "\\"), (",", "'", "\\"), (";", '"', '"'), ("|", "'", '"'),
            ("\t", '"', '"'), (":", "!", "\\")]


def delimited_text(rows, line_end="\n", fmt=None):
    """Every cell between quotes, quote (and escape) characters inside escaped the way the dialect of ``fmt`` says."""
    fmt = fmt or {}
    delimiter = fmt.get("item_delimiter") or ","
    quote = fmt.get("quote_character") or '"'
    escape = fmt.get("escape_character") or '"'

    def spelled(cell):
        if escape == quote:
            return quote + cell.replace(quote, quote + quote) + quote
        return quote + cell.replace(escape, escape + escape).replace(quote, escape + quote) + quote

    return "".join(delimiter.join(spelled(cell) for cell in row) + line_end for row in rows)


_FIXED_ENDS = {"LF": "\n", "CR": "\r", "CRLF": "\r\n", "Any": "\n", None: "\n", "None": ""}


def fixed_text(rows, fmt):
    end = _FIXED_ENDS[fmt.get("line_delimiter")]
    return "".join("".join(row) + end for row in rows)


def stored_rows(spec, rows):
    """The table a reader of that storage format delivers (xlsx pads to the sheet width)."""
    if spec["fmt"]["format"] == "excel":
        from vlib import enc_xlsx

        return enc_xlsx.text_table(rows)
    return [list(row) for row in rows]


def _opened(path, via):
    """A text stream the caller has opened: from a path (its ``name`` is that path) or from a file descriptor, as
    pipes, sockets and temporary files are (its ``name`` is a number, which cannot name the input)."""
    if via == "file-stream":
        return open(path, "r", encoding="utf-8", newline="")
    return os.fdopen(os.open(path, os.O_RDONLY), "r", encoding="utf-8", newline="")


def _spooled(text):
    """A temporary file that lives in memory: a text stream whose name is None."""
    import tempfile

    result = tempfile.SpooledTemporaryFile(max_size=1 << 24, mode="w+", encoding="utf-8", newline="")
    result.write(text)
    result.seek(0)
    return result


def write_source(spec, rows, tmpdir, via="stream", name="data"):
    """Returns (source, base name for locations); source is a text stream or a path.  ``via``: 'stream' (StringIO),
    'path', and for the text formats 'file-stream' / 'fd-stream' / 'spooled-stream' (an open file the caller has to
    close)."""
    import io

    fmt = spec["fmt"]
    kind = fmt["format"]
    if kind == "delimited":
        text = delimited_text(rows, fmt=fmt)
        if via == "stream":
            return io.StringIO(text, newline=""), "<io>"
        if via == "spooled-stream":
            return _spooled(text), "<io>"
        path = os.path.join(tmpdir, name + ".csv")
        with open(path, "w", encoding="utf-8", newline="") as f:
            f.write(text)
        if via in ("file-stream", "fd-stream"):
            return _opened(path, via), (name + ".csv" if via == "file-stream" else "<io>")
        return path, name + ".csv"
    if kind == "fixed":
        text = fixed_text(rows, fmt)
        if via == "stream":
            return io.StringIO(text, newline=""), "<io>"
        if via == "spooled-stream":
            return _spooled(text), "<io>"
        path = os.path.join(tmpdir, name + ".txt")
        with open(path, "w", encoding="utf-8", newline="") as f:
            f.write(text)
        if via in ("file-stream", "fd-stream"):
            return _opened(path, via), (name + ".txt" if via == "file-stream" else "<io>")
        return path, name + ".txt"
    sheet = fmt.get("sheet") or 1
    if kind == "ods":
        from vlib import enc_ods

        path = os.path.join(tmpdir, name + ".ods")
        sheets = [[["other sheet %d" % i]] for i in range(1, sheet)] + [rows]
        # the way spreadsheet applications store a sheet: runs of equal rows and of equal cells are written once
        # ... and now and then the cells carry comments
        enc_ods.write(path, sheets, {} if fmt.get("ods_plain") else {"row_runs": True, "col_runs": True,
                                                                      "annotations": len(rows) % 2 == 1,
                                                                      "subtables": len(rows) % 3 == 2})
        return path, name + ".ods"
    from vlib import enc_xlsx

    path = os.path.join(tmpdir, name + ".xlsx")
    enc_xlsx.write_text_table(path, rows, sheet=sheet)
    return path, name + ".xlsx"
