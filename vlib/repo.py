"""Import cutplace from the working tree named by $VERIF_REPO (default /repo)."""
import logging
import os
import sys
import warnings

warnings.filterwarnings("ignore")
REPO = os.path.abspath(os.environ.get("VERIF_REPO") or "/repo")
if not os.path.isdir(os.path.join(REPO, "cutplace")):
    raise ImportError("no cutplace package under %s" % REPO)
sys.path.insert(0, REPO)
for _name in [m for m in sys.modules if m == "cutplace" or m.startswith("cutplace.")]:
    del sys.modules[_name]
import cutplace  # noqa: E402

_here = os.path.abspath(os.path.dirname(cutplace.__file__))
if _here != os.path.join(REPO, "cutplace"):
    raise ImportError("cutplace imported from %s instead of %s" % (_here, REPO))
logging.getLogger("cutplace").setLevel(logging.CRITICAL)
logging.getLogger("cutplace").propagate = False
logging.getLogger("cutplace").addHandler(logging.NullHandler())
