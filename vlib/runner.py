"""Runner for the cutplace property checks.

A property module ``props/cNN.py`` exposes

    PROPERTY_ID, RULE, ASSUMPTIONS (list of str), EXHAUSTIVE (optional bool)
    run(ctx)                   -- explore, using ctx.sub() / ctx.hyp() / ctx.par()
    replay(ctx, case)          -- re-execute one saved case (plain function call)

All oracle comparisons go through ``Sub.case`` (bookkeeping) and ``Sub.fail``
(a discrepancy with a root-cause signature).  Nothing asserts directly.

Exit codes: 0 property held (known findings are printed, not alarms),
1 violation (VIOLATION line printed), 2 harness error.
"""
import hashlib
import json
import multiprocessing
import os
import pickle
import sys
import time
import traceback

VERIF = os.path.dirname(os.path.dirname(os.path.abspath(__file__)))
_MP = multiprocessing.get_context("fork")
MAX_SAMPLES = 12
MAX_FAIL_CASES = 3


def h64(obj):
    if not isinstance(obj, (bytes, str)):
        obj = json.dumps(obj, sort_keys=True, default=str)
    if isinstance(obj, str):
        obj = obj.encode("utf-8", "surrogatepass")
    return int.from_bytes(hashlib.blake2b(obj, digest_size=8).digest(), "big")


def norm_message(error, limit=60):
    """Error text reduced to its template: quoted parts and digits removed."""
    import re

    text = str(error)
    text = re.sub(r"'[^']*'|\"[^\"]*\"", "?", text)
    text = re.sub(r"[0-9]+", "#", text)
    return text[:limit]


class Sub(object):
    """Picklable accumulator for one worker / one part of a run."""

    def __init__(self, part="main"):
        self.part = part
        self.evaluations = 0
        self.nontrivial = set()  # 64 bit hashes of distinct non-trivial cases
        self.bulk_nontrivial = 0  # distinct by construction (enumerations)
        self.classes = {}
        self.samples = []
        self.fails = {}  # signature -> {"count", "cases": [..], "message"}
        self.notes = {}
        self.budget_exhausted = False

    # -- bookkeeping -----------------------------------------------------
    def case(self, key=None, nontrivial=False, classes=(), sample=None, evals=1):
        """One generated case.  ``key`` identifies it for distinct counting."""
        self.evaluations += evals
        if nontrivial and key is not None:
            self.nontrivial.add(h64(key))
        for c in classes:
            self.classes[c] = self.classes.get(c, 0) + 1
        if sample is not None and len(self.samples) < MAX_SAMPLES:
            self.samples.append(sample)

    def bulk(self, evals, nontrivial, classes=None):
        """Cases of an enumeration: distinct by construction."""
        self.evaluations += evals
        self.bulk_nontrivial += nontrivial
        for c, n in (classes or {}).items():
            self.classes[c] = self.classes.get(c, 0) + n

    def cls(self, name, n=1):
        self.classes[name] = self.classes.get(name, 0) + n

    def fail(self, signature, case, message):
        entry = self.fails.setdefault(signature, {"count": 0, "cases": [], "message": message})
        entry["count"] += 1
        if len(entry["cases"]) < MAX_FAIL_CASES:
            entry["cases"].append(case)

    def merge(self, other):
        self.evaluations += other.evaluations
        self.nontrivial |= other.nontrivial
        self.bulk_nontrivial += other.bulk_nontrivial
        for c, n in other.classes.items():
            self.classes[c] = self.classes.get(c, 0) + n
        for s in other.samples:
            if len(self.samples) < MAX_SAMPLES * 3:
                self.samples.append(s)
        for sig, e in other.fails.items():
            mine = self.fails.setdefault(sig, {"count": 0, "cases": [], "message": e["message"]})
            mine["count"] += e["count"]
            for c in e["cases"]:
                if len(mine["cases"]) < MAX_FAIL_CASES:
                    mine["cases"].append(c)
        self.notes.update(other.notes)
        self.budget_exhausted = self.budget_exhausted or other.budget_exhausted


class HarnessError(Exception):
    pass


def par_map(fn, args_list, workers=None):
    """Run fn(arg) for each arg in forked processes (fn may be a closure)."""
    workers = workers or min(16, os.cpu_count() or 1)
    args_list = list(args_list)
    if not args_list:
        return []
    if workers <= 1 or len(args_list) == 1 or os.environ.get("VERIF_NOFORK"):
        return [fn(a) for a in args_list]
    results = [None] * len(args_list)
    pending = list(enumerate(args_list))
    running = {}

    def child(conn, arg):
        try:
            out = ("ok", fn(arg))
        except BaseException:
            out = ("err", traceback.format_exc())
        try:
            conn.send_bytes(pickle.dumps(out, protocol=pickle.HIGHEST_PROTOCOL))
        finally:
            conn.close()
            os._exit(0)

    while pending or running:
        while pending and len(running) < workers:
            idx, arg = pending.pop(0)
            parent_conn, child_conn = _MP.Pipe(duplex=False)
            p = _MP.Process(target=child, args=(child_conn, arg))
            p.start()
            child_conn.close()
            running[idx] = (p, parent_conn)
        done = []
        for idx, (p, conn) in running.items():
            if conn.poll(0.01):
                try:
                    status, payload = pickle.loads(conn.recv_bytes())
                except EOFError:
                    status, payload = "err", "worker died without result"
                p.join()
                done.append(idx)
                if status == "err":
                    for q, _ in running.values():
                        if q.is_alive():
                            q.terminate()
                    raise HarnessError("worker failed:\n" + payload)
                results[idx] = payload
            elif not p.is_alive() and not conn.poll(0.05):
                done.append(idx)
                raise HarnessError("worker %d died (exit %s)" % (idx, p.exitcode))
        for idx in done:
            running.pop(idx, None)
    return results


def reused_dir(tag):
    """An empty scratch directory whose PATH is the same for every case a worker process runs (the caller removes it
    when the case is done, as it would a mkdtemp directory).  Files of successive cases therefore carry the same
    path and different contents - which is what a user's working directory looks like, and what anything that
    remembers a file by its path must cope with."""
    import shutil
    import tempfile

    path = os.path.join(tempfile.gettempdir(), "verif-%s-%d" % (tag, os.getpid()))
    shutil.rmtree(path, ignore_errors=True)
    os.makedirs(path)
    return path


class Ctx(object):
    def __init__(self, prop_id, tier, seed):
        self.prop_id = prop_id
        self.tier = tier
        self.seed = seed
        self.quick = tier == "quick"
        self.total = Sub("total")
        self.known = load_known(prop_id)
        self.t0 = time.time()
        self.workers = int(os.environ.get("VERIF_WORKERS", "0")) or min(16, os.cpu_count() or 1)
        budget = os.environ.get("VERIF_BUDGET_S")
        self.budget_s = float(budget) if budget else None

    def n(self, quick, thorough):
        return quick if self.quick else thorough

    def sub(self, part="main"):
        return Sub(part)

    def merge(self, sub):
        self.total.merge(sub)

    def elapsed(self):
        return time.time() - self.t0

    def is_known(self, signature):
        for k in self.known:
            if k.get("status") == "open" and signature_matches(k["signature"], signature):
                return True
        return False

    def par(self, fn, args_list, workers=None):
        """fn(arg) -> Sub; results are merged."""
        for sub in par_map(fn, args_list, workers or self.workers):
            self.merge(sub)

    # -- hypothesis driver -------------------------------------------------
    def hyp(self, part, strategy_factory, check, examples, workers=None, stateful=False):
        """Run ``check(sub, case)`` on ``examples`` generated cases.

        strategy_factory() -> hypothesis strategy producing JSON-able cases.
        check(sub, case) records bookkeeping and discrepancies in sub.
        The work is sharded over forked workers, each with its own seed derived
        from VERIF_SEED.  A worker that meets an unknown discrepancy lets
        Hypothesis shrink it, records the minimal case, excludes that signature
        and goes on (so several root causes surface in one run).
        """
        workers = workers or self.workers
        workers = max(1, min(workers, examples // 25 or 1))
        per = (examples + workers - 1) // workers
        known = self.known
        seed = self.seed
        deadline_at = None if self.budget_s is None else self.t0 + self.budget_s

        def worker(widx):
            return _hyp_worker(part, strategy_factory, check, per, seed * 1000 + widx * 7919 + h64(part) % 1000,
                               known, deadline_at)

        self.par(worker, list(range(workers)), workers)


def _hyp_worker(part, strategy_factory, check, examples, seed, known, deadline_at):
    import hypothesis
    from hypothesis import HealthCheck, Phase, given, settings

    sub = Sub(part)
    found = set()

    def is_excluded(sig):
        if sig in found:
            return True
        for k in known:
            if k.get("status") == "open" and signature_matches(k["signature"], sig):
                return True
        return False

    strategy = strategy_factory()
    remaining = examples
    rounds = 0
    while remaining > 0 and rounds < 6:
        rounds += 1
        state = {"n": 0, "last_fail": None}

        @hypothesis.seed(seed + rounds)
        @settings(
            max_examples=remaining,
            database=None,
            deadline=None,
            derandomize=False,
            report_multiple_bugs=False,
            suppress_health_check=list(HealthCheck),
            phases=[Phase.generate, Phase.shrink],
            print_blob=False,
        )
        @given(strategy)
        def test(case):
            if deadline_at is not None and time.time() > deadline_at:
                sub.budget_exhausted = True
                return
            local = Sub(part)
            check(local, case)
            new = [s for s in local.fails if not is_excluded(s)]
            if new:
                sig = sorted(new)[0]
                state["last_fail"] = (sig, case, local.fails[sig]["message"])
                raise _Discrepancy(sig)
            state["n"] += 1
            sub.merge(local)

        try:
            test()
            remaining = 0
        except _Discrepancy:
            sig, case, message = state["last_fail"]
            found.add(sig)
            sub.fail(sig, case, message)
            remaining -= max(state["n"], 1)
        except hypothesis.errors.Flaky as error:  # noqa
            raise HarnessError("flaky check in part %s: %s" % (part, error))
        except Exception:
            # Hypothesis' shrinker can trip over its own replay (seen: ValueError in intervalsets.index while
            # re-aligning text choices). If a discrepancy had already been found, report it with the smallest case
            # seen so far instead of losing it; otherwise this is a harness error.
            if state["last_fail"] is None:
                raise
            sig, case, message = state["last_fail"]
            found.add(sig)
            sub.fail(sig, case, message)
            sub.notes["shrink-aborted"] = "hypothesis raised while shrinking; reported the last failing case seen"
            remaining -= max(state["n"], 1)
    return sub


class _Discrepancy(Exception):
    pass


# -- known findings -------------------------------------------------------
def load_known(prop_id):
    path = os.path.join(VERIF, "known_findings.json")
    entries = []
    if os.path.exists(path):
        with open(path, "r", encoding="utf-8") as f:
            data = json.load(f)
        entries = [e for e in data.get("entries", []) if e.get("property") == prop_id]
    # development aid only (never set by registered commands): treat extra signatures as open findings
    for extra in (os.environ.get("VERIF_KNOWN_EXTRA") or "").split(";"):
        if extra.strip():
            entries.append({"property": prop_id, "status": "open", "signature": extra.strip(),
                            "what": "(VERIF_KNOWN_EXTRA, development only)"})
    return entries


def signature_matches(pattern, signature):
    # exact match, or prefix match when the pattern ends with '*'
    if pattern.endswith("*"):
        return signature.startswith(pattern[:-1])
    return pattern == signature


# -- main -------------------------------------------------------------------
def write_evidence(ctx, module, violations):
    total = ctx.total
    distinct = len(total.nontrivial) + total.bulk_nontrivial
    step = max(1, len(total.samples) // MAX_SAMPLES)
    samples = total.samples[::step][:MAX_SAMPLES]
    coverage = {
        "evaluations": total.evaluations,
        "distinct_nontrivial": distinct,
        "rule": module.RULE,
        "samples": samples,
        "classes": dict(sorted(total.classes.items())),
        "excluded_known": sum(
            e["count"] for s, e in total.fails.items() if ctx.is_known(s)
        ),
        "budget_exhausted": total.budget_exhausted,
    }
    if total.notes:
        coverage["notes"] = total.notes
    if getattr(module, "EXHAUSTIVE", False):
        coverage["exhaustive"] = True
        coverage["exhaustive_scope"] = getattr(module, "EXHAUSTIVE_SCOPE", "")
    evidence = {
        "property_id": ctx.prop_id,
        "tier": ctx.tier,
        "seed": ctx.seed,
        "level": "exploration",
        "coverage": coverage,
        "assumptions": list(getattr(module, "ASSUMPTIONS", [])),
        "wall_s": round(ctx.elapsed(), 2),
        "violations": violations,
    }
    evidence_dir = os.environ.get("VERIF_EVIDENCE_DIR") or os.path.join(VERIF, "evidence")  # self-tests redirect it
    os.makedirs(evidence_dir, exist_ok=True)
    path = os.path.join(evidence_dir, ctx.prop_id + ".json")
    tmp = path + ".tmp"
    with open(tmp, "w", encoding="utf-8") as f:
        json.dump(evidence, f, indent=1, ensure_ascii=True, default=str)
        f.write("\n")
    os.replace(tmp, path)
    return evidence


def report(ctx, module):
    """Print findings / violations; return exit code."""
    total = ctx.total
    known_hit = {}
    unknown = {}
    for sig, entry in sorted(total.fails.items()):
        if ctx.is_known(sig):
            for k in ctx.known:
                if k.get("status") == "open" and signature_matches(k["signature"], sig):
                    known_hit.setdefault(k["signature"], [k, 0])
                    known_hit[k["signature"]][1] += entry["count"]
                    break
        else:
            unknown[sig] = entry
    # every open finding is printed on every run (it is a recorded defect of the tree)
    for k in ctx.known:
        if k.get("status") == "open":
            hits = known_hit.get(k["signature"], [k, 0])[1]
            print("KNOWN-FINDING: property=%s %s [signature=%s; met %d times in this run]" % (
                ctx.prop_id, k.get("what", ""), k["signature"], hits))
    write_evidence(ctx, module, len(unknown))
    if not unknown:
        return 0
    replay_dir = os.environ.get("VERIF_REPLAY_DIR") or os.path.join(VERIF, "replays")
    os.makedirs(replay_dir, exist_ok=True)
    for sig, entry in unknown.items():
        case = entry["cases"][0] if entry["cases"] else None
        name = "%s-%016x.json" % (ctx.prop_id, h64(sig))
        path = os.path.join(replay_dir, name)
        with open(path, "w", encoding="utf-8") as f:
            json.dump({"property": ctx.prop_id, "signature": sig, "message": entry["message"],
                       "count": entry["count"], "case": case}, f, indent=1, default=str)
            f.write("\n")
        print("DISCREPANCY signature=%s count=%d message=%s" % (sig, entry["count"], entry["message"][:400]))
        print("VIOLATION property=%s replay=%s" % (ctx.prop_id, path))
    return 1


def _regress_shard(args):
    """Replay saved minimal cases (regress/<property>/*.json) through the property's plain replay() function."""
    module_name, paths = args
    import importlib

    module = importlib.import_module(module_name)
    sub = Sub("regress")
    skipped = 0
    for path in paths:
        try:
            with open(path, "r", encoding="utf-8") as f:
                saved = json.load(f)
            before = dict((s, e["count"]) for s, e in sub.fails.items())
            module.replay(sub, saved["case"])
            for s, e in sub.fails.items():  # name the saved input in the message of what it (re-)exposed
                if e["count"] != before.get(s) and "[regress:" not in e["message"]:
                    e["message"] = "[regress:%s] %s" % (os.path.basename(path), e["message"])
        except Exception as error:  # a saved input the current harness cannot interpret is not evidence of anything
            skipped += 1
            sub.notes["regress-skipped:" + os.path.basename(path)] = "%s: %s" % (type(error).__name__, str(error)[:120])
    sub.cls("regress:replayed", len(paths) - skipped)
    if skipped:
        sub.cls("regress:skipped", skipped)
    return sub


def run_regress(ctx, module):
    """Seconds-long replay tier: every saved minimal failing input of a repaired defect or of a confirmed seeded
    regression is checked again, without Hypothesis, before the generated search starts."""
    folder = os.path.join(VERIF, "regress", ctx.prop_id)
    if not os.path.isdir(folder) or not hasattr(module, "replay"):
        return
    paths = sorted(os.path.join(folder, n) for n in os.listdir(folder) if n.endswith(".json"))
    if not paths:
        return
    shards = max(1, min(ctx.workers, len(paths) // 4 or 1))
    ctx.par(_regress_shard, [(module.__name__, paths[i::shards]) for i in range(shards)], shards)


def main(argv=None):
    import argparse
    import importlib
    import warnings

    warnings.filterwarnings("ignore")
    try:  # kill -USR1 <pid> dumps the Python stack of a (possibly stuck) worker to stderr
        import faulthandler
        import signal

        faulthandler.register(signal.SIGUSR1, all_threads=True)
    except Exception:
        pass
    parser = argparse.ArgumentParser()
    parser.add_argument("property")
    parser.add_argument("--tier", default=os.environ.get("VERIF_TIER") or "quick", choices=["quick", "thorough"])
    parser.add_argument("--replay")
    args = parser.parse_args(argv)
    prop_id = args.property.upper()
    try:
        seed = int(os.environ.get("VERIF_SEED") or "1")
    except ValueError:
        seed = 1
    try:
        from vlib import repo  # noqa: F401  (puts the repository first on sys.path and verifies it)
        module = importlib.import_module("props." + prop_id.lower())
        ctx = Ctx(prop_id, args.tier, seed)
        if args.replay:
            with open(args.replay, "r", encoding="utf-8") as f:
                saved = json.load(f)
            sub = ctx.sub("replay")
            module.replay(sub, saved["case"])
            ctx.merge(sub)
            unknown = [s for s in sub.fails if not ctx.is_known(s)]
            for s in sub.fails:
                print("DISCREPANCY signature=%s message=%s" % (s, sub.fails[s]["message"][:400]))
            if unknown:
                print("VIOLATION property=%s replay=%s" % (prop_id, args.replay))
                return 1
            print("replay: no violation")
            return 0
        run_regress(ctx, module)
        module.run(ctx)
        code = report(ctx, module)
        total = ctx.total
        print("%s tier=%s seed=%d evaluations=%d distinct_nontrivial=%d wall=%.1fs -> %s" % (
            prop_id, args.tier, seed, total.evaluations, len(total.nontrivial) + total.bulk_nontrivial,
            ctx.elapsed(), "OK" if code == 0 else "VIOLATION"))
        return code
    except HarnessError as error:
        print("HARNESS-ERROR %s" % error, file=sys.stderr)
        return 2
    except Exception:
        traceback.print_exc()
        print("HARNESS-ERROR unexpected exception in harness", file=sys.stderr)
        return 2
