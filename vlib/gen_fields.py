"""Hypothesis strategies for format specs, field specs and cell pools.  No cutplace import.

The expectation for a cell always comes from model_fields.verdict(); the generators only aim cells at the
interesting regions (boundaries of the rule, single mutations of accepted cells).
"""
import calendar
import keyword
import re
import unicodedata
from decimal import Decimal

from hypothesis import strategies as st

from vlib import gen_range, model_fields
from vlib.gen_range import ELLIPSIS

FORMATS = ("delimited", "delimited-de", "fixed", "excel", "ods")
TYPES = ("Integer", "Decimal", "Choice", "Constant", "DateTime", "Pattern", "RegEx", "Text")

_NAME_START = "abcdefghijklmnopqrstuvwxyzABCDEFGHIJKLMNOPQRSTUVWXYZ"
_NAME_REST = _NAME_START + "0123456789_"


def field_names():
    return st.builds(lambda a, b: a + b, st.sampled_from(_NAME_START), st.text(_NAME_REST, max_size=6)).filter(
        lambda n: not keyword.iskeyword(n))


# -- formats ---------------------------------------------------------------------------------
def format_spec(kind, header=0, allowed=None, allowed_text=None, line_delimiter=None):
    spec = {"format": {"delimited-de": "delimited"}.get(kind, kind), "kind": kind, "header": header,
            "decimal": ".", "thousands": "", "allowed": allowed, "allowed_text": allowed_text}
    if kind == "delimited":
        spec["thousands"] = ","
    elif kind == "delimited-de":
        spec["decimal"] = ","
        spec["thousands"] = "."
    if line_delimiter is not None:
        spec["line_delimiter"] = line_delimiter
    return spec


def format_rows(fmt):
    """CID rows for a format spec."""
    name = {"delimited": "Delimited", "fixed": "Fixed", "excel": "Excel", "ods": "ODS"}[fmt["format"]]
    rows = [["D", "Format", name]]
    if fmt["format"] in ("delimited", "fixed"):
        if fmt["decimal"] != ".":
            rows.append(["D", "Decimal separator", fmt["decimal"]])
        if fmt["thousands"] != "":
            rows.append(["D", "Thousands separator", fmt["thousands"]])
        if fmt.get("line_delimiter"):
            rows.append(["D", "Line delimiter", fmt["line_delimiter"]])
    if fmt["format"] == "delimited":
        rows.append(["D", "Encoding", fmt.get("encoding") or "utf-8"])
        # optional dialect (set by checks that write): item delimiter, quote and escape character
        if fmt.get("item_delimiter"):
            rows.append(["D", "Item delimiter", "Tab" if fmt["item_delimiter"] == "\t" else '"%s"' % fmt["item_delimiter"]])
        if fmt.get("quote_character"):
            rows.append(["D", "Quote character", fmt["quote_character"]])
        if fmt.get("escape_character"):
            rows.append(["D", "Escape character", fmt["escape_character"]])
    if fmt["format"] == "fixed":
        rows.append(["D", "Encoding", fmt.get("encoding") or "utf-8"])
    if fmt.get("header"):
        rows.append(["D", "Header", str(fmt["header"])])
    if fmt.get("sheet"):
        rows.append(["D", "Sheet", str(fmt["sheet"])])
    if fmt.get("allowed_text"):
        rows.append(["D", "Allowed characters", fmt["allowed_text"]])
    return rows


def last_named_field(field_names, rule):
    """Index of the last field (in declaration order) whose name occurs as a word in ``rule``; the last field if none."""
    import re

    named = [index for index, name in enumerate(field_names)
             if re.search(r"(?<![A-Za-z0-9_])%s(?![A-Za-z0-9_])" % re.escape(name), rule)]
    return max(named) if named else len(field_names) - 1


def field_row(field):
    return ["F", field["name"], field.get("example", ""), "X" if field["empty"] else "", field["length"],
            field["type"], field["rule"]]


# -- lengths ----------------------------------------------------------------------------------
@st.composite
def length_decls(draw, lo_min=0, hi_max=8, kinds=("none", "exact", "lower", "upper", "closed", "multi")):
    kind = draw(st.sampled_from(kinds))
    if kind == "none":
        return "", None
    if kind == "exact":
        n = draw(st.integers(max(lo_min, 1), hi_max))
        return str(n), [[n, n]]
    if kind == "lower":
        n = draw(st.integers(lo_min, hi_max))
        return "%d..." % n, [[n, None]]
    if kind == "upper":
        n = draw(st.integers(max(lo_min, 1), hi_max))
        return "...%d" % n, [[None, n]]
    if kind == "closed":
        a = draw(st.integers(lo_min, hi_max))
        b = draw(st.integers(max(a, 1), hi_max))
        return "%d...%d" % (a, b), [[a, b]]
    a = draw(st.integers(lo_min, hi_max - 2))
    b = draw(st.integers(max(a, 1), hi_max - 1))
    c = draw(st.integers(b + 1, hi_max))
    d = draw(st.integers(c, hi_max))
    return "%d...%d, %d...%d" % (a, b, c, d), [[a, b], [c, d]]


# -- per type ---------------------------------------------------------------------------------
def _spell_range_items(draw, items):
    parts = []
    for lo, hi in items:
        if lo is not None and hi is not None and lo == hi:
            parts.append(str(lo))
        else:
            sep = draw(st.sampled_from(["...", "...", ":", ELLIPSIS]))
            parts.append(("" if lo is None else str(lo)) + sep + ("" if hi is None else str(hi)))
    return ", ".join(parts)


@st.composite
def integer_fields(draw, name, fmt, mode=None):
    mode = mode or draw(st.sampled_from(["rule", "rule", "length", "none", "both"]))
    fixed = fmt["format"] == "fixed"
    empty = draw(st.booleans())
    length_text, length_items, rule, range_items = "", None, "", None
    if fixed:
        width = draw(st.integers(1, 6))
        length_text, length_items = str(width), [[width, width]]
        if mode in ("rule", "both"):
            limits = st.integers(-(10 ** (width - 1) - 1) if width > 1 else 0, 10 ** width - 1)
            raw = draw(gen_range.item_lists(limits, 3))
            range_items = [[it[0], it[1]] for it in raw]
            rule = _spell_range_items(draw, range_items)
        else:
            range_items = model_fields.length_range_items([[1, width]])
    elif mode == "rule":
        limits = st.one_of(st.integers(-50, 50), st.integers(-100000, 100000), st.sampled_from(gen_range.BOUNDARY_INTS))
        raw = draw(gen_range.item_lists(limits, 3))
        range_items = [[it[0], it[1]] for it in raw]
        rule = _spell_range_items(draw, range_items)
    elif mode == "length":
        length_text, length_items = draw(length_decls(lo_min=0, hi_max=6,
                                                      kinds=("exact", "lower", "upper", "closed", "multi")))
        range_items = model_fields.length_range_items(length_items)
    elif mode == "none":
        range_items = [[-(2 ** 31), 2 ** 31 - 1]]
    else:  # both: a rule whose limits fit a covering length
        limits = st.integers(-9999, 99999)
        raw = draw(gen_range.item_lists(limits, 2))
        range_items = [[it[0], it[1]] for it in raw]
        rule = _spell_range_items(draw, range_items)
        longest = max(len(str(v)) for it in range_items for v in it if v is not None)
        shortest = min(len(str(v)) for it in range_items for v in it if v is not None)
        lo = draw(st.integers(0, shortest))
        hi = draw(st.integers(longest, longest + 2))
        length_text, length_items = "%d...%d" % (lo, hi), [[lo, hi]]
    if length_text == "" and not fixed:
        # no length: the cell is empty or holds nothing but blanks
        length_text = draw(st.sampled_from(["", "", " ", "\t", "  "]))
    return {"name": name, "empty": empty, "length": length_text, "length_items": length_items, "type": "Integer",
            "rule": rule, "model": {"range_items": range_items, "mode": mode}}


def _int_cells(draw, field, fmt, n):
    items = field["model"]["range_items"]
    cells = []
    finite = sorted(set(v for it in (items or []) for v in it if v is not None))
    candidates = []
    for v in finite:
        candidates += [v - 1, v, v + 1]
    for a, b in zip(finite, finite[1:]):
        candidates.append((a + b) // 2)
    candidates += [0, 1, -1, 9, 10, 99, 100, -9, -10, 2 ** 31 - 1, 2 ** 31, -(2 ** 31), -(2 ** 31) - 1]
    picked = draw(st.lists(st.sampled_from(candidates), min_size=n, max_size=n))
    picked += draw(st.lists(st.integers(-10 ** 7, 10 ** 7), min_size=2, max_size=2))
    # where the range is open, values beyond what fixed-size integers hold must still be accepted
    if items is None or any(hi is None for _, hi in items):
        picked += [2 ** 31 - 1, 2 ** 31, 2 ** 63, 10 ** 20]
    if items is None or any(lo is None for lo, _ in items):
        picked += [-(2 ** 31), -(2 ** 31) - 1, -(2 ** 63) - 1, -(10 ** 20)]
    cells += [str(v) for v in picked]
    cells += draw(st.lists(st.sampled_from(["abc", "1.5", "1,5", "0x10", "12a", "1e3", "--1", "1-", "-", "٣", "1 2",
                                           "+5", "007", "1_0", " 7", "-0", "NaN"]), min_size=2, max_size=3))
    # an integer the way spreadsheets and floating point numbers spell it: not an integer literal
    for v in picked[:2]:
        cells.append(str(v) + draw(st.sampled_from([".0", ".00", ".", ",0", ".0 ", "e0", ".0e0"])))
    # digits in groups of three: a spelling of Decimal cells, not of integers - whichever separator is used
    big = [v for v in picked if abs(v) >= 1000][:2] + [1000, 1234567]
    for v in big[:3]:
        separator = draw(st.sampled_from([fmt["thousands"] or ",", fmt["thousands"] or ".", ",", ".", "'"]))
        cells.append(_group(str(v), separator))
    return cells


@st.composite
def decimal_fields(draw, name, fmt):
    empty = draw(st.booleans())
    has_rule = draw(st.booleans())
    if has_rule:
        raw = draw(gen_range.item_lists(gen_range.dec_limits().map(lambda d: d + 0), 3))
        items = [[None if it[0] is None else gen_range.spell_dec(it[0]),
                  None if it[1] is None else gen_range.spell_dec(it[1])] for it in raw]
        parts = []
        for lo, hi in items:
            if lo is not None and hi is not None and lo == hi:
                parts.append(lo)
            else:
                sep = draw(st.sampled_from(["...", ":", ELLIPSIS]))
                parts.append(("" if lo is None else lo) + sep + ("" if hi is None else hi))
        rule = ", ".join(parts)
    else:
        rule = ""
        items = [["-9999999999999999999.999999999999", "9999999999999999999.999999999999"]]
    length_text, length_items = "", None
    if fmt["format"] == "fixed":
        width = draw(st.integers(4, 12))
        length_text, length_items = str(width), [[width, width]]
    return {"name": name, "empty": empty, "length": length_text, "length_items": length_items, "type": "Decimal",
            "rule": rule, "model": {"range_items": items}}


def _group(text, ts):
    sign = "-" if text.startswith("-") else ""
    digits = text.lstrip("-")
    out = ""
    while len(digits) > 3:
        out = ts + digits[-3:] + out
        digits = digits[:-3]
    return sign + digits + out


def _dec_cells(draw, field, fmt, n):
    ds, ts = fmt["decimal"], fmt["thousands"]
    items = field["model"]["range_items"]
    finite = sorted(set(Decimal(v) for it in items for v in it if v is not None))
    places = max([max(0, -d.as_tuple().exponent) for d in finite] + [0])
    step = Decimal(1).scaleb(-(places + 1))
    candidates = []
    import decimal

    with decimal.localcontext() as context:
        context.prec = 120  # exact, whatever the number of digits
        tiny = Decimal(1).scaleb(-36)  # nearer to a limit than any fixed number of significant digits resolves
        for v in finite:
            candidates += [v - step, v, v + step, v - 1, v + 1, v - tiny, v + tiny]
        for a, b in zip(finite, finite[1:]):
            candidates.append((a + b) / 2)
    candidates += [Decimal(0), Decimal("1234567.891"), Decimal("-1234.5"), Decimal("1000"), Decimal("0.001")]
    picked = draw(st.lists(st.sampled_from(candidates), min_size=n, max_size=n))
    cells = []
    for v in picked:
        text = format(v, "f")
        if text.startswith("-0") and v == 0:
            text = text.lstrip("-")
        whole, _, frac = text.partition(".")
        if ts and draw(st.booleans()):
            whole = _group(whole, ts)
        cells.append(whole + (ds + frac if frac else ""))
    if draw(st.integers(0, 3)) == 0:
        cells.append(draw(st.sampled_from(["-0", "-0" + ds + "0", "-0" + ds + "00", "0" + ds + "000"])))  # zero is zero
    ok = [c for c in cells if c]
    mutations = []
    for c in ok[:3]:
        kind = draw(st.sampled_from(["two-ds", "ts-after-ds", "letter", "other-sep", "nan"]))
        if kind == "two-ds":
            mutations.append(c + ds + "1" if ds in c else c + ds + "1" + ds + "2")
        elif kind == "ts-after-ds" and ts:
            mutations.append((c if ds in c else c + ds + "123") + ts + "456")
        elif kind == "letter":
            mutations.append(c[:1] + "x" + c[1:])
        elif kind == "other-sep":
            mutations.append(c.replace(ds, ";") if ds in c else c + ";5")
        else:
            mutations.append(draw(st.sampled_from(["NaN", "Infinity", "-Infinity", "sNaN", "abc", "1e5", "1" + ds,
                                                   ds + "5", "+1", " 1"])))
    return cells + mutations


_WORDS = ["red", "green", "blue", "Red", "RED", "a", "b", "ab", "abc", "x1", "_y", "änderung", "Ä", "no", "yes"]
_QUOTED = ["two words", "with, comma", "ünï cödé", "semi;colon", "a", "1st", "-", "#", "tab\there", "x y z", "it's",
           "cafe\u0301", "\u212a",
           # values that begin or end with the quote character the rule does not use around them
           "5'", '12"', "'n'", '"x"', "'", '"']  # a decomposed accent and the Kelvin sign: equal to "café" / "K" only after normalisation
_NUMBERS = ["1", "2", "10", "42", "1.5", "0"]


@st.composite
def choice_tokens(draw, fixed=False):
    kind = draw(st.sampled_from(["word", "word", "quoted", "number"]))
    if kind == "word":
        value = draw(st.sampled_from(_WORDS))
        return value, value
    if kind == "number":
        value = draw(st.sampled_from(_NUMBERS))
        return value, value
    value = draw(st.sampled_from(_QUOTED))
    if '"' not in value and (("'" in value) or draw(st.booleans())):
        return value, '"' + value + '"'
    return value, "'" + value + "'"


@st.composite
def choice_fields(draw, name, fmt):
    empty = draw(st.booleans())
    tokens = draw(st.lists(choice_tokens(), min_size=1, max_size=5, unique_by=lambda t: t[0]))
    choices = [t[0] for t in tokens]
    sep = draw(st.sampled_from([",", ", ", " , "]))
    rule = sep.join(t[1] for t in tokens)
    length_text, length_items = "", None
    if fmt["format"] == "fixed":
        width = max(len(c) for c in choices) + draw(st.integers(0, 2))
        length_text, length_items = str(width), [[width, width]]
    return {"name": name, "empty": empty, "length": length_text, "length_items": length_items, "type": "Choice",
            "rule": rule, "model": {"choices": choices}}


def _mutate_text(draw, text, alphabet):
    if not text:
        return draw(st.sampled_from(alphabet))
    kind = draw(st.sampled_from(["delete", "insert", "replace", "swapcase", "append", "unicode-variant"]))
    if kind == "unicode-variant":
        # a different code point sequence that is canonically or compatibility equivalent to the text
        variants = [v for v in (unicodedata.normalize(form, text) for form in ("NFD", "NFC", "NFKC")) if v != text]
        for plain, twin in (("K", "\u212a"), ("k", "\uff4b"), ("a", "\uff41"), ("A", "\u0391"), ("1", "\uff11")):
            if plain in text:
                variants.append(text.replace(plain, twin, 1))
        if variants:
            return draw(st.sampled_from(variants))
        kind = "swapcase"
    pos = draw(st.integers(0, len(text) - 1))
    ch = draw(st.sampled_from(alphabet))
    if kind == "delete":
        return text[:pos] + text[pos + 1:]
    if kind == "insert":
        return text[:pos] + ch + text[pos:]
    if kind == "replace":
        return text[:pos] + ch + text[pos + 1:]
    if kind == "swapcase":
        return text.swapcase()
    return text + ch


def _choice_cells(draw, field, fmt, n):
    choices = field["model"]["choices"] if field["type"] == "Choice" else [field["model"]["constant"]]
    cells = draw(st.lists(st.sampled_from(choices), min_size=n, max_size=n))
    out = list(cells)
    for c in cells[:4]:
        out.append(_mutate_text(draw, c, "abX1 ä"))
    out += draw(st.lists(st.sampled_from(_WORDS + _QUOTED), min_size=1, max_size=2))
    # a listed number is a text like any other: written with the other decimal separator it is another text
    for c in choices[:3]:
        if "." in c or "," in c:
            out.append(c.replace(".", "\0").replace(",", ".").replace("\0", ","))
    return out


@st.composite
def constant_fields(draw, name, fmt):
    value, token = draw(choice_tokens())
    length_text, length_items = "", None
    if fmt["format"] == "fixed":
        width = len(value)
        length_text, length_items = str(width), [[width, width]]
    elif draw(st.booleans()):
        length_text, length_items = str(len(value)), [[len(value), len(value)]]
    return {"name": name, "empty": False, "length": length_text, "length_items": length_items, "type": "Constant",
            "rule": token, "model": {"constant": value}}


_DATE_PARTS = ["DD", "MM", "YYYY", "YY", "hh", "mm", "ss"]
_SEPARATORS = [".", "-", "/", ":", " ", ", ", "", "%", "."]


@st.composite
def datetime_fields(draw, name, fmt):
    empty = draw(st.booleans())
    shape = draw(st.sampled_from(["date", "date", "time", "datetime", "free", "standard", "standard"]))
    if shape == "standard":
        # the layouts most CIDs use
        rule = draw(st.sampled_from(["hh:mm:ss", "hh:mm", "YYYY-MM-DD", "DD.MM.YYYY", "MM/DD/YYYY", "YYYY-MM-DD hh:mm:ss",
                                     "DD.MM.YYYY hh:mm", "YYYYMMDD", "hhmmss", "DD.MM.YY", "YYYY-MM-DD hh:mm"]))
        layout = [piece for piece in re.split(r"(YYYY|YY|DD|MM|hh|mm|ss)", rule) if piece]
        length_text, length_items = "", None
        if fmt["format"] == "fixed":
            width = len(rule) + draw(st.integers(0, 2))
            length_text, length_items = str(width), [[width, width]]
        return {"name": name, "empty": empty, "length": length_text, "length_items": length_items, "type": "DateTime",
                "rule": rule, "model": {"layout": layout}}
    if shape == "date":
        parts = draw(st.permutations(["DD", "MM", draw(st.sampled_from(["YYYY", "YYYY", "YY"]))]))
    elif shape == "time":
        parts = draw(st.sampled_from([["hh", "mm"], ["hh", "mm", "ss"], ["mm", "ss"], ["hh"]]))
    elif shape == "datetime":
        parts = ["YYYY", "MM", "DD", "hh", "mm", "ss"]
    else:
        pool = draw(st.sampled_from([["DD", "MM", "YYYY", "hh", "mm", "ss"], ["DD", "MM", "YY", "hh", "mm"]]))
        k = draw(st.integers(1, len(pool)))
        parts = list(draw(st.permutations(pool)))[:k]
    layout = []
    prefix = draw(st.sampled_from(["", "", "", "%", "#"]))
    if prefix:
        layout.append(prefix)
    for i, part in enumerate(parts):
        if i:
            sep = draw(st.sampled_from(_SEPARATORS))
            if sep:
                layout.append(sep)
        layout.append(part)
    rule = "".join(layout)
    length_text, length_items = "", None
    if fmt["format"] == "fixed":
        width = sum(4 if p == "YYYY" else len(p) for p in layout) + draw(st.integers(0, 2))
        length_text, length_items = str(width), [[width, width]]
    return {"name": name, "empty": empty, "length": length_text, "length_items": length_items, "type": "DateTime",
            "rule": rule, "model": {"layout": layout}}


def _render_dt(layout, v):
    out = ""
    for part in layout:
        if part == "DD":
            out += "%02d" % v["d"]
        elif part == "MM":
            out += "%02d" % v["m"]
        elif part == "YYYY":
            out += "%04d" % v["y"]
        elif part == "YY":
            out += "%02d" % (v["y"] % 100)
        elif part == "hh":
            out += "%02d" % v["H"]
        elif part == "mm":
            out += "%02d" % v["M"]
        elif part == "ss":
            out += "%02d" % v["S"]
        else:
            out += part
    return out


def _dt_cells(draw, field, fmt, n):
    layout = field["model"]["layout"]
    cells = []
    for _ in range(n):
        y = draw(st.one_of(st.integers(1969, 2068), st.sampled_from([1, 1900, 2000, 2024, 2100, 9999, 1968, 2069])))
        m = draw(st.integers(1, 12))
        d = draw(st.integers(1, calendar.monthrange(y, m)[1]))
        v = {"y": y, "m": m, "d": d, "H": draw(st.integers(0, 23)), "M": draw(st.integers(0, 59)),
             "S": draw(st.integers(0, 59))}
        cells.append(_render_dt(layout, v))
        mutation = draw(st.sampled_from(["month13", "day32", "day31", "feb30", "feb29", "hour24", "min60", "sec60",
                                         "letter", "truncate", "trailing", "unpadded", "excel", "none"]))
        w = dict(v)
        if mutation == "month13":
            w["m"] = 13
        elif mutation == "day32":
            w["d"] = 32
        elif mutation == "day31":
            w["m"], w["d"] = draw(st.sampled_from([4, 6, 9, 11])), 31
        elif mutation == "feb30":
            w["m"], w["d"] = 2, 30
        elif mutation == "feb29":
            w["m"], w["d"] = 2, 29
        elif mutation == "hour24":
            w["H"] = 24
        elif mutation == "min60":
            w["M"] = 60
        elif mutation == "sec60":
            w["S"] = draw(st.sampled_from([60, 61, 62]))
        text = _render_dt(layout, w)
        if mutation == "letter":
            text = _mutate_text(draw, text, "aT x")
        elif mutation == "truncate" and text:
            text = text[:-1]
        elif mutation == "trailing":
            # one more character, or what time stamps carry behind the seconds (fractions, zones, AM / PM)
            text = text + draw(st.sampled_from(["0", " ", "x", ".", " 00:00:00", ".250", ".5", ",5", ".000", "Z", "+01:00",
                                                " AM", "PM", ".123456"]))
        elif mutation == "unpadded":
            text = text.replace("0", "", 1)
        elif mutation == "excel":
            text = text + " 00:00:00"
        cells.append(text)
    return cells


_GLOB_ALPHA = "abcABC01äÄ-. "


@st.composite
def glob_tokens(draw):
    n = draw(st.integers(1, 6))
    tokens = []
    text = ""
    for _ in range(n):
        kind = draw(st.sampled_from(["lit", "lit", "lit", "any", "star", "class"]))
        if kind == "lit":
            ch = draw(st.sampled_from(_GLOB_ALPHA))
            tokens.append({"t": "lit", "c": ch})
            text += ch
        elif kind == "any":
            tokens.append({"t": "any"})
            text += "?"
        elif kind == "star":
            if tokens and tokens[-1]["t"] == "star":
                continue
            tokens.append({"t": "star"})
            text += "*"
        else:
            neg = draw(st.booleans())
            items = []
            body = ""
            for _ in range(draw(st.integers(1, 3))):
                if draw(st.booleans()):
                    ch = draw(st.sampled_from("abcABC01äÄ."))
                    items.append([ch, ch])
                    body += ch
                else:
                    lo, hi = sorted(draw(st.lists(st.sampled_from("abcABC019"), min_size=2, max_size=2)))
                    items.append([lo, hi])
                    body += lo + "-" + hi
            tokens.append({"t": "class", "neg": neg, "items": items})
            text += "[" + ("!" if neg else "") + body + "]"
    return tokens, text


@st.composite
def pattern_fields(draw, name, fmt):
    empty = draw(st.booleans())
    tokens, rule = draw(glob_tokens())
    if rule != rule.strip():
        tokens = [{"t": "lit", "c": "x"}] + tokens + [{"t": "lit", "c": "x"}]
        rule = "x" + rule + "x"
    length_text, length_items = "", None
    if fmt["format"] == "fixed":
        width = draw(st.integers(len(tokens), len(tokens) + 4))
        length_text, length_items = str(width), [[width, width]]
    return {"name": name, "empty": empty, "length": length_text, "length_items": length_items, "type": "Pattern",
            "rule": rule, "model": {"tokens": tokens}}


def _instance_of_glob(draw, tokens):
    out = ""
    for tok in tokens:
        if tok["t"] == "lit":
            out += draw(st.sampled_from([tok["c"], tok["c"].swapcase()]))
        elif tok["t"] == "any":
            out += draw(st.sampled_from(_GLOB_ALPHA + model_fields.EXOTIC_CASE_CHARS))
        elif tok["t"] == "star":
            out += draw(st.text(_GLOB_ALPHA + model_fields.EXOTIC_CASE_CHARS, max_size=3))
        else:
            lo, hi = draw(st.sampled_from(tok["items"]))
            out += draw(st.sampled_from([lo, hi, lo.swapcase()]))
    return out


def _pattern_cells(draw, field, fmt, n):
    tokens = field["model"]["tokens"]
    cells = []
    for _ in range(n):
        text = _instance_of_glob(draw, tokens)
        cells.append(text)
        cells.append(_mutate_text(draw, text, _GLOB_ALPHA))
    cells += draw(st.lists(st.text(_GLOB_ALPHA, min_size=1, max_size=4), min_size=2, max_size=2))
    return cells


# regex subset: returns (ast, text)
_RE_LITERALS = "abcABC01äÄ -_"


@st.composite
def regex_nodes(draw, depth=0):
    """One regex node with an optional quantifier.

    Cost control (catastrophic backtracking in ``re`` is a cost problem, not one of the properties): groups occur
    only at depth 0, and inside a group atoms take only bounded quantifiers, so generated instances stay short.
    """
    kind = draw(st.sampled_from(["lit", "lit", "lit", "dot", "class", "group", "alt"] if depth < 1 else
                                ["lit", "lit", "dot", "class"]))
    if kind == "lit":
        # now and then a rule that spans lines or carries a '#': both are ordinary characters of an expression
        ch = draw(st.one_of(st.sampled_from(_RE_LITERALS), st.sampled_from(_RE_LITERALS), st.sampled_from(_RE_LITERALS),
                            st.sampled_from("\n#\t")))
        node, text = {"t": "lit", "c": ch}, ch
    elif kind == "dot":
        node, text = {"t": "dot"}, "."
    elif kind == "class":
        neg = draw(st.booleans())
        items, body = [], ""
        for _ in range(draw(st.integers(1, 3))):
            if draw(st.booleans()):
                ch = draw(st.sampled_from("abcABC01äÄ_"))
                items.append([ch, ch])
                body += ch
            else:
                lo, hi = sorted(draw(st.lists(st.sampled_from("abcABC019"), min_size=2, max_size=2)))
                items.append([lo, hi])
                body += lo + "-" + hi
        node, text = {"t": "class", "neg": neg, "items": items}, "[" + ("^" if neg else "") + body + "]"
    elif kind == "group":
        inner, inner_text = draw(regex_seqs(depth + 1))
        node, text = inner, "(" + inner_text + ")"
    else:
        options = [draw(regex_seqs(depth + 1)) for _ in range(draw(st.integers(2, 3)))]
        node = {"t": "alt", "items": [o[0] for o in options]}
        text = "(" + "|".join(o[1] for o in options) + ")"
    if depth >= 1:
        quant = draw(st.sampled_from(["", "", "", "?", "{m,n}", "{m}"]))
    else:
        quant = draw(st.sampled_from(["", "", "", "?", "*", "+", "{m,n}", "{m}"]))
    if quant == "?":
        node, text = {"t": "rep", "node": node, "min": 0, "max": 1}, text + "?"
    elif quant == "*":
        node, text = {"t": "rep", "node": node, "min": 0, "max": None}, text + "*"
    elif quant == "+":
        node, text = {"t": "rep", "node": node, "min": 1, "max": None}, text + "+"
    elif quant == "{m,n}":
        m = draw(st.integers(0, 2))
        n = draw(st.integers(max(m, 1), 2 if depth >= 1 else 3))
        node, text = {"t": "rep", "node": node, "min": m, "max": n}, text + "{%d,%d}" % (m, n)
    elif quant == "{m}":
        m = draw(st.integers(1, 2 if depth >= 1 else 3))
        node, text = {"t": "rep", "node": node, "min": m, "max": m}, text + "{%d}" % m
    return node, text


@st.composite
def regex_seqs(draw, depth=0):
    parts = [draw(regex_nodes(depth)) for _ in range(draw(st.integers(1, 2 if depth else 4)))]
    return {"t": "seq", "items": [p[0] for p in parts]}, "".join(p[1] for p in parts)


@st.composite
def regex_fields(draw, name, fmt):
    empty = draw(st.booleans())
    node, text = draw(regex_seqs())
    items = [node]
    if draw(st.booleans()):
        items.insert(0, {"t": "bol"})
        text = "^" + text
    if draw(st.booleans()):
        items.append({"t": "eol"})
        text = text + "$"
    ast = {"t": "seq", "items": items}
    if text != text.strip():
        ast = {"t": "seq", "items": [{"t": "lit", "c": "x"}, ast, {"t": "lit", "c": "x"}]}
        text = "x" + text + "x"
    length_text, length_items = "", None
    if fmt["format"] == "fixed":
        width = draw(st.integers(3, 10))
        length_text, length_items = str(width), [[width, width]]
    return {"name": name, "empty": empty, "length": length_text, "length_items": length_items, "type": "RegEx",
            "rule": text, "model": {"ast": ast}}


def _instance_of_regex(draw, node):
    kind = node["t"]
    if kind == "lit":
        return draw(st.sampled_from([node["c"], node["c"].swapcase()]))
    if kind == "dot":
        return draw(st.sampled_from(_RE_LITERALS))
    if kind == "class":
        if node["neg"]:
            return draw(st.sampled_from("xyzXYZ789"))
        lo, hi = draw(st.sampled_from(node["items"]))
        return draw(st.sampled_from([lo, hi]))
    if kind in ("bol", "eol"):
        return ""
    if kind == "seq":
        return "".join(_instance_of_regex(draw, item) for item in node["items"])
    if kind == "alt":
        return _instance_of_regex(draw, draw(st.sampled_from(node["items"])))
    hi = node["max"] if node["max"] is not None else node["min"] + 2
    count = draw(st.integers(node["min"], hi))
    return "".join(_instance_of_regex(draw, node["node"]) for _ in range(count))


def _regex_cells(draw, field, fmt, n):
    ast = field["model"]["ast"]
    cells = []
    for _ in range(n):
        text = _instance_of_regex(draw, ast)
        cells.append(text)
        cells.append(_mutate_text(draw, text, _RE_LITERALS + "xyz9"))
        cells.append(text + draw(st.sampled_from(["x", "a", "0", " "])))
    cells += draw(st.lists(st.text(_RE_LITERALS, min_size=1, max_size=4), min_size=2, max_size=2))
    return cells


@st.composite
def text_fields(draw, name, fmt):
    empty = draw(st.booleans())
    if fmt["format"] == "fixed":
        width = draw(st.integers(1, 8))
        length_text, length_items = str(width), [[width, width]]
    else:
        length_text, length_items = draw(length_decls())
    # Text takes anything - also when somebody wrote something into the rule column
    rule = draw(st.sampled_from(["", "", "", '"a"..."z"', "32...126", "abc", "[0-9]+", "*", "65"]))
    return {"name": name, "empty": empty, "length": length_text, "length_items": length_items, "type": "Text",
            "rule": rule, "model": {}}


def _text_cells(draw, field, fmt, n):
    return draw(st.lists(st.text("abc XYZ09äß€中-_.,;'\"", min_size=0, max_size=10), min_size=n, max_size=n))


FIELD_STRATEGIES = {
    "Integer": integer_fields, "Decimal": decimal_fields, "Choice": choice_fields, "Constant": constant_fields,
    "DateTime": datetime_fields, "Pattern": pattern_fields, "RegEx": regex_fields, "Text": text_fields,
}
CELL_GENERATORS = {
    "Integer": _int_cells, "Decimal": _dec_cells, "Choice": _choice_cells, "Constant": _choice_cells,
    "DateTime": _dt_cells, "Pattern": _pattern_cells, "RegEx": _regex_cells, "Text": _text_cells,
}


@st.composite
def fields_of(draw, name, fmt, types=TYPES):
    type_name = draw(st.sampled_from(types))
    return draw(FIELD_STRATEGIES[type_name](name, fmt))


def cells_for(draw, field, fmt, n=6):
    """Candidate cells aimed at the field's rule; fixed format: also right-padded variants."""
    cells = CELL_GENERATORS[field["type"]](draw, field, fmt, n)
    cells.append("")
    if fmt["format"] == "fixed":
        width = field["length_items"][0][0]
        out = []
        for c in cells:
            out.append(c)
            if len(c) < width and draw(st.booleans()):
                out.append(c + " " * (width - len(c)))
        out.append(" " * width)
        cells = out
    return cells
